package main

import (
	"os"
	"go/constant"
	"fmt"
	"go/token"
	"go/types"
	"sort"
	"strings"

	"golang.org/x/tools/go/ssa"
)

const maxInlineDepth = 8

// call handles an ssa.Call instruction.
func (a *Activation) call(in *ssa.Call, st *State) *State {
	st2, res := a.callCommon(&in.Call, st, in.Pos(), nil, nil)
	if st2 == nil {
		return nil
	}
	a.env[in] = packResults(res, in.Type())
	return st2
}

func packResults(res []Val, T types.Type) Val {
	switch len(res) {
	case 0:
		return Val{K: KUnit, T: T}
	case 1:
		return res[0]
	}
	return Val{K: KTuple, T: T, Fields: res}
}

// callCommon executes a call; preArgs/preFn are supplied for deferred calls (already evaluated).
func (a *Activation) callCommon(c *ssa.CallCommon, st *State, pos token.Pos, preArgs []Val, preFn *Val) (*State, []Val) {
	_ = a.t
	var args []Val
	if preArgs != nil {
		args = preArgs
	} else {
		for _, x := range c.Args {
			args = append(args, a.val(x, st))
		}
	}
	sig := c.Signature()
	if c.IsInvoke() {
		var recv Val
		if preFn != nil {
			recv = *preFn
		} else {
			recv = a.val(c.Value, st)
		}
		return a.invoke(recv, c.Method, args, sig, st, pos)
	}
	// builtins
	if b, ok := c.Value.(*ssa.Builtin); ok {
		return a.builtin(b, c, args, st, pos)
	}
	var fv Val
	if preFn != nil {
		fv = *preFn
	} else {
		fv = a.val(c.Value, st)
	}
	if fv.Clo != nil {
		fn := fv.Clo.Fn.(*ssa.Function)
		return a.callStatic(fn, args, fv.Clo.Bindings, st, pos, sig)
	}
	// 'beforecall <variable>' hooks: assertions about the arguments handed to a function-valued variable
	if con := a.rootContract(); con != nil {
		vname := ""
		switch v := c.Value.(type) {
		case *ssa.Parameter:
			vname = v.Name()
		case *ssa.UnOp:
			if fvv, ok := v.X.(*ssa.FreeVar); ok {
				vname = fvv.Name()
			}
			if fa, ok := v.X.(*ssa.FieldAddr); ok {
				// a function-valued field (a listener): matched by field name ("e.onFull" or "onFull")
				if st, ok := derefType(fa.X.Type()).Underlying().(*types.Struct); ok {
					vname = st.Field(fa.Field).Name()
				}
			}
		}
		if vname != "" {
			for _, cl := range con.Clauses {
				cn := cl.Name
				if k := strings.LastIndex(cn, "."); k >= 0 {
					cn = cn[k+1:]
				}
				if cl.Kind == "beforecall" && cn == vname {
					ra := a.rootAct()
					for ai, av := range args {
						ra.lets[fmt.Sprintf("callarg_%d", ai)] = av
					}
					a.ghostAssign(st, cl)
					for ai := range args {
						delete(ra.lets, fmt.Sprintf("callarg_%d", ai))
					}
				}
			}
		}
	}
	// function value of unknown code: a contract may be attached to its named function type
	if nt, ok := types.Unalias(c.Value.Type()).(*types.Named); ok {
		key := "functype:" + typeKey(nt)
		if cons := a.t.eng.con.Funcs[key]; len(cons) > 0 {
			return a.opaqueFuncTypeContract(cons[0], fv, args, sig, st, pos)
		}
	}
	if a.hasClause("purecalls") {
		return a.pureApply(fv, args, sig, st, pos)
	}
	return a.opaqueCall(fv, args, sig, st, pos, "")
}

// callStatic: call of a known function (possibly an instantiation wrapper).
func (a *Activation) callStatic(fn *ssa.Function, args []Val, bindings []Val, st *State, pos token.Pos, sig *types.Signature) (*State, []Val) {
	out, res := a.callStatic0(fn, args, bindings, st, pos, sig)
	if os.Getenv("FSV_DEBUG") != "" {
		fmt.Fprintln(os.Stderr, "callStatic", fullName(a.fn), "->", fullName(fn), "out nil", out == nil, "dead", out != nil && out.dead)
	}
	if out != nil && !out.dead {
		if con := a.rootContract(); con != nil {
			target := fn
			if o := fn.Origin(); o != nil {
				target = o
			}
			name := fullName(target)
			for _, c := range con.Clauses {
				if c.Kind == "oncall" && strings.HasSuffix(name, c.Name) {
					ra := a.rootAct()
					if len(res) > 0 {
						ra.lets["callresult"] = res[0]
					}
					for ri, rv := range res {
						ra.lets[fmt.Sprintf("callresult_%d", ri)] = rv
					}
					for ai, av := range args {
						ra.lets[fmt.Sprintf("callarg_%d", ai)] = av
					}
					a.ghostAssign(out, c)
					for ai := range args {
						delete(ra.lets, fmt.Sprintf("callarg_%d", ai))
					}
					delete(ra.lets, "callresult")
					for ri := range res {
						delete(ra.lets, fmt.Sprintf("callresult_%d", ri))
					}
				}
			}
		}
	}
	return out, res
}

func (a *Activation) callStatic0(fn *ssa.Function, args []Val, bindings []Val, st *State, pos token.Pos, sig *types.Signature) (*State, []Val) {
	t := a.t
	var tsubst map[*types.TypeParam]types.Type
	target := fn
	if o := fn.Origin(); o != nil && o != fn {
		target = o
		tps := o.TypeParams()
		tas := fn.TypeArgs()
		if tps != nil && len(tas) == tps.Len() {
			tsubst = map[*types.TypeParam]types.Type{}
			for i := 0; i < tps.Len(); i++ {
				tsubst[tps.At(i)] = a.subst(tas[i])
			}
		}
	}
	// synthetic wrappers (bound methods, thunks, promoted-method wrappers)
	if target.Synthetic != "" && target.Pkg == nil && len(target.Blocks) > 0 && target.Origin() == nil {
		// wrapper functions have bodies that delegate; execute them (cheap)
		return a.inline(target, args, bindings, st, tsubst)
	}
	name := fullName(target)
	// mutating methods of standard-library types that are documented as not safe for concurrent use: the receiver must
	// be an object this activation allocated itself (nothing else can reach it yet); anything older may be shared
	if mutatesUnsyncReceiver(name) && len(args) > 0 && args[0].K == KRef {
		age := t.declareFun("$age", []string{"Int"}, "Int")
		entry := a.rootAct().entry
		if entry != nil {
			t.regArray("$now", "Int")
			a.obligeSafety(st, "confine", "receiver of "+name+" is private to the caller", "(>= "+sApp(age, args[0].S)+" "+t.lookup(entry, "$now")+")", pos)
		}
	}
	// built-in models for the runtime / standard library
	if st2, res, ok := a.model(name, target, args, st, pos, sig); ok {
		return st2, res
	}
	if cons := t.eng.con.Funcs[name]; len(cons) > 0 && !(a.root && a.fn == target && false) {
		cs := ""
		if rc := a.rootContract(); rc != nil {
			cs = rc.Case
		}
		con := pickContract(cons, cs)
		if con == nil {
			con = pickContract(cons, "")
		}
		if con == nil && len(cons) > 0 {
			t.errorf("%s: callee %s has only case contracts and none matches case %q", fullName(a.fn), name, cs)
		}
		if con != nil && con.Trusted && con.hasClause("recorded") {
			return a.recordedStatic(con, target, args, sig, st, pos)
		}
		// A contract that no longer evaluates against its function (a parameter or local it names is gone): applying it here
		// would only make this caller undecided as well. The callee is verified (and reported undecided) on its own; its
		// callers are checked against its body instead, so that what they promise is still decided.
		if con != nil && !con.Trusted && con.Case == "" && len(target.FreeVars) == 0 && t.eng.inModule(target) && len(target.Blocks) > 0 &&
			a.depth < maxInlineDepth && !a.isRecursive(target) && !t.eng.contractEvaluable(con, target) {
			t.assumed["the contract of "+shortName(name)+" no longer evaluates against its code (undecided on its own); its callers are verified against its body"] = true
			return a.inline(target, args, bindings, st, tsubst)
		}
		if con != nil && !(con.Inline && t.eng.inModule(target) && a.depth < maxInlineDepth) && !a.inlineForced(name) {
			return a.applyContract(con, target, args, bindings, st, pos, sig)
		}
	}
	if t.eng.inModule(target) && len(target.Blocks) > 0 {
		if a.depth >= maxInlineDepth {
			t.errorf("%s: inlining depth exceeded at call of %s", a.fn, name)
			return a.opaqueResult(st, sig, name)
		}
		if a.isRecursive(target) {
			t.errorf("%s: recursive call of %s without contract", a.fn, name)
			return a.opaqueResult(st, sig, name)
		}
		return a.inline(target, args, bindings, st, tsubst)
	}
	if len(target.Blocks) > 0 && target.Synthetic != "" {
		return a.inline(target, args, bindings, st, tsubst)
	}
	// a foreign function without contract or model: anything may happen to the heap, any value may come back
	t.assumed["unmodelled foreign function treated as arbitrary (terminates, does not panic): "+name] = true
	fv := Val{K: KFunc, S: t.funcID(target)}
	return a.opaqueCall(fv, args, sig, st, pos, name)
}

func pickContract(cons []*FuncContract, cs string) *FuncContract {
	for _, c := range cons {
		if c.Case == cs {
			return c
		}
	}
	return nil
}

func (a *Activation) isRecursive(fn *ssa.Function) bool {
	for x := a; x != nil; x = x.callerA {
		if x.fn == fn {
			return true
		}
	}
	return false
}

func (a *Activation) inline(fn *ssa.Function, args []Val, bindings []Val, st *State, tsubst map[*types.TypeParam]types.Type) (*State, []Val) {
	t := a.t
	t.inlined[fullName(fn)] = true
	saved := t.curFn
	out, res, _ := t.run(fn, args, bindings, st, a.depth+1, nil, a, tsubst)
	t.curFn = saved
	if out == nil || out.dead {
		return nil, nil
	}
	return out, res
}

func (a *Activation) opaqueResult(st *State, sig *types.Signature, hint string) (*State, []Val) {
	t := a.t
	var res []Val
	for i := 0; i < sig.Results().Len(); i++ {
		res = append(res, t.freshValue(st.pc, hint+".r", sig.Results().At(i).Type()))
	}
	return st, res
}

// ---- opaque calls: user functions, listeners, predicates, foreign interface methods ----

func (t *Task) callsArr(st *State) string {
	t.regArray("$calls", "(Array Int Int)")
	return t.lookup(st, "$calls")
}

func sortSig(k Kind) string {
	switch k {
	case KBool:
		return "B"
	case KF32:
		return "F"
	case KF64:
		return "R"
	}
	return "I"
}

// oretTerm: j-th scalar leaf of the result of the k-th call of function value f.
func (t *Task) oretTerm(f string, k string, j int, kind Kind) string {
	name := fmt.Sprintf("$oret%d%s", j, sortSig(kind))
	fn := t.declareFun(name, []string{"Int", "Int"}, sortOfKind(kind))
	return sApp(fn, f, k)
}

func (t *Task) oargName(j int, kind Kind) string {
	name := fmt.Sprintf("$oarg%d%s", j, sortSig(kind))
	t.regArray(name, "(Array Int (Array Int "+sortOfKind(kind)+"))")
	return name
}

// flattenScalars lists the scalar leaves of a value in a deterministic order.
func flattenScalars(v Val, out *[]Val) {
	switch v.K {
	case KStruct, KTuple:
		for _, f := range v.Fields {
			flattenScalars(f, out)
		}
	case KSlice:
		*out = append(*out, v.Fields[0], v.Fields[1])
	case KUnit:
	default:
		*out = append(*out, v)
	}
}

// buildFromScalars constructs a value of type T whose leaves are produced by gen (in flatten order).
func (t *Task) buildFromScalars(T types.Type, gen func(k Kind, T types.Type) string) Val {
	switch k := kindOfType(T); k {
	case KStruct:
		s := structOf(T)
		v := Val{K: KStruct, T: T}
		if s == nil {
			t.errorf("unsupported composite %s", T)
			return v
		}
		for i := 0; i < s.NumFields(); i++ {
			v.Fields = append(v.Fields, t.buildFromScalars(s.Field(i).Type(), gen))
		}
		return v
	case KTuple:
		tu := T.Underlying().(*types.Tuple)
		v := Val{K: KTuple, T: T}
		for i := 0; i < tu.Len(); i++ {
			v.Fields = append(v.Fields, t.buildFromScalars(tu.At(i).Type(), gen))
		}
		return v
	case KSlice:
		p := gen(KRef, T)
		l := gen(KInt, types.Typ[types.Int])
		return Val{K: KSlice, T: T, Fields: []Val{{K: KRef, S: p}, {K: KInt, S: l, T: types.Typ[types.Int]}}}
	case KUnit:
		return Val{K: KUnit, T: T}
	default:
		return Val{K: k, T: T, S: gen(k, T)}
	}
}

func (a *Activation) opaqueCall(fv Val, args []Val, sig *types.Signature, st *State, pos token.Pos, what string) (*State, []Val) {
	return a.opaqueCallX(fv, args, sig, st, pos, what, true)
}

func (a *Activation) opaqueCallX(fv Val, args []Val, sig *types.Signature, st *State, pos token.Pos, what string, havoc bool) (*State, []Val) {
	t := a.t
	f := fv.S
	if t.modelNames == nil {
		t.modelNames = map[string]string{}
	}
	if _, ok := t.modelNames[f]; !ok && t.quantDepth == 0 {
		t.modelNames[f] = "called at " + posStr(t.eng.fset, pos) + " " + what
		t.modelSyms = append(t.modelSyms, f)
	}
	// calling a nil function value panics
	a.obligeSafety(st, "nilcall", "call of function value", sNot(sEq(f, "0")), pos)
	calls := t.callsArr(st)
	k := t.fresh("k", "Int")
	t.assume(st.pc, sEq(k, "(+ "+sApp("select", calls, f)+" 1)"))
	t.set(st, "$calls", sApp("store", calls, f, k))
	// tick
	t.regArray("$tick", "Int")
	tick := t.lookup(st, "$tick")
	t.regArray("$otick", "(Array Int (Array Int Int))")
	ot := t.lookup(st, "$otick")
	t.set(st, "$otick", sApp("store", ot, f, sApp("store", sApp("select", ot, f), k, tick)))
	t.set(st, "$tick", "(+ "+tick+" 1)")
	// record arguments
	var flat []Val
	for _, x := range args {
		a.escape(st, x)
		flattenScalars(x, &flat)
	}
	for j, x := range flat {
		name := t.oargName(j, x.K)
		cur := t.lookup(st, name)
		t.set(st, name, sApp("store", cur, f, sApp("store", sApp("select", cur, f), k, x.S)))
	}
	// effect on the heap
	if havoc {
		st = t.havocState(st, t.eng.keepAcrossOpaque)
	}
	// unknown code may allocate
	{
		t.regArray("$now", "Int")
		old := t.lookup(st, "$now")
		nn := t.fresh("now@o", "Int")
		t.assume(st.pc, "(>= "+nn+" "+old+")")
		t.set(st, "$now", nn)
	}
	// results
	var res []Val
	j := 0
	for i := 0; i < sig.Results().Len(); i++ {
		RT := sig.Results().At(i).Type()
		v := t.buildFromScalars(RT, func(kd Kind, LT types.Type) string {
			term := t.oretTerm(f, k, j, kd)
			j++
			if kd == KInt {
				t.assume(st.pc, inRangeTerm(term, LT))
			}
			if kd == KFunc {
				t.funcValFact(st.pc, term)
				t.funcTypeFact(st.pc, term, LT)
			}
			return term
		})
		a.wfRef(st, v)
		res = append(res, v)
	}
	return st, res
}

// opaqueWithContract: a method of a foreign interface (user Cache, Stopwatch, Clock, context.Context ...):
// the call is recorded like any opaque call (calls/arg/ret) and the interface-level assumed contract adds facts
// about its result; "modifies nothing" keeps the heap.
func (a *Activation) opaqueWithContract(con *FuncContract, recv Val, method string, args []Val, sig *types.Signature, st *State, pos token.Pos) (*State, []Val) {
	t := a.t
	t.assumed["assumed interface contract (trusted): "+con.Full] = true
	t.contractsUsed[con.Full] = true
	fv := Val{K: KFunc, S: t.mthTerm(method, recv.S)}
	key := "mthnz:" + fv.S
	if !t.pureDone[key] {
		t.pureDone[key] = true
		t.assume(st.pc, "(> "+fv.S+" 0)")
	}
	pure := con.hasClause("modifies") && !con.hasClause("havoc")
	pre := st.clone()
	var out *State
	var res []Val
	out, res = a.opaqueCallX(fv, args, sig, st, pos, con.Full, !pure)
	vars := map[string]Val{"self": recv}
	{
		menv := &ExprEnv{t: t, st: pre, old: pre, vars: vars, pkg: con.Pkg, callBase: pre}
		targets, _, _ := t.resolveMods(menv, con)
		for _, m := range targets {
			if m.ref != "" && m.array != "" {
				cur := t.lookup(out, m.array)
				srt := t.sortOfArray(m.array)
				inner := strings.TrimSuffix(strings.TrimPrefix(srt, "(Array Int "), ")")
				t.set(out, m.array, sApp("store", cur, m.ref, t.fresh(m.array+"@cv", inner)))
			}
			if m.isPrefix && m.array != "" {
				var names []string
				for name := range t.arrSort {
					if strings.HasPrefix(name, m.array) {
						names = append(names, name)
					}
				}
				sort.Strings(names)
				for _, name := range names {
					t.set(out, name, t.fresh(name+"@cv", t.sortOfArray(name)))
				}
			}
		}
	}
	for i := 0; i < sig.Params().Len() && i < len(args); i++ {
		n := sig.Params().At(i).Name()
		if n == "" || n == "_" {
			n = fmt.Sprintf("p%d", i)
		}
		vars[n] = args[i]
	}
	for i, r := range res {
		vars[fmt.Sprintf("result_%d", i)] = r
	}
	env := &ExprEnv{t: t, st: out, old: pre, vars: vars, pkg: con.Pkg, callBase: pre}
	for _, c := range con.Clauses {
		switch c.Kind {
		case "let":
			vars[c.Name] = env.evalSrc(c.Expr, c.Src)
		case "ensures":
			t.assume(out.pc, env.evalBool(c.Expr, c.Src))
		}
	}
	return out, res
}

// hintedTypes: types named by 'dyntype <iface> <type>' clauses of the root contract for interface IT.
func (a *Activation) hintedTypes(IT types.Type) []types.Type {
	con := a.rootContract()
	if con == nil {
		return nil
	}
	var out []types.Type
	for _, c := range con.Clauses {
		if c.Kind != "dyntype" {
			continue
		}
		iname, tname := splitWord(c.Expr)
		if !strings.HasSuffix(typeKey(IT), iname) {
			continue
		}
		if strings.HasSuffix(strings.TrimSpace(tname), " only") {
			// 'dyntype I T only': T is the only possibility; proved at each dispatch (obligation) instead of a residual branch
			tname = strings.TrimSuffix(strings.TrimSpace(tname), " only")
			a.hintExclusive = true
		}
		env := &ExprEnv{t: a.t, pkg: con.Pkg, src: c.Src}
		e, err := parseSpec(tname)
		if err != nil {
			a.t.errorf("%s: bad dyntype clause", c.Src)
			continue
		}
		T := env.resolveType(e)
		if T == nil {
			a.t.errorf("%s: unknown type %s", c.Src, tname)
			continue
		}
		out = append(out, T)
	}
	return out
}

// inlineForced: the root contract asks to see through this callee's contract.
func (a *Activation) inlineForced(name string) bool {
	con := a.rootContract()
	if con == nil {
		return false
	}
	for _, c := range con.Clauses {
		if c.Kind != "inlinecalls" {
			continue
		}
		for _, n := range splitList(c.Expr) {
			if strings.HasSuffix(name, n) {
				return true
			}
		}
	}
	return false
}

func (a *Activation) hasClause(kind string) bool {
	for _, con := range []*FuncContract{a.rootContract(), a.conForLoops()} {
		if con == nil {
			continue
		}
		for _, c := range con.Clauses {
			if c.Kind == kind {
				return true
			}
		}
	}
	return false
}

// appTerm: application of a pure (deterministic, side-effect free) function value.
func (t *Task) appTerm(f string, args []Val, rk Kind) string {
	var flat []Val
	for _, x := range args {
		flattenScalars(x, &flat)
	}
	sig := ""
	sorts := []string{"Int"}
	terms := []string{f}
	for _, x := range flat {
		sig += sortSig(x.K)
		sorts = append(sorts, sortOfKind(x.K))
		terms = append(terms, x.S)
	}
	fn := t.declareFun("$app_"+sig+"_"+sortSig(rk), sorts, sortOfKind(rk))
	return sApp(fn, terms...)
}

func (a *Activation) pureApply(fv Val, args []Val, sig *types.Signature, st *State, pos token.Pos) (*State, []Val) {
	t := a.t
	t.assumed["condition predicates (handle/abort/cancel/cache conditions) are pure: deterministic and without effect on library state"] = true
	a.obligeSafety(st, "nilcall", "call of function value", sNot(sEq(fv.S, "0")), pos)
	var res []Val
	if sig.Results().Len() != 1 {
		t.errorf("%s: purecalls supports single-result functions only", fullName(a.fn))
		return a.opaqueResult(st, sig, "pure")
	}
	RT := sig.Results().At(0).Type()
	k := kindOfType(RT)
	res = append(res, Val{K: k, T: RT, S: t.appTerm(fv.S, args, k)})
	return st, res
}

// recordedStatic: a foreign function with an assumed contract marked 'recorded': the call is logged like a call into
// unknown code (so that specifications can name its i-th result) and the contract's ensures are assumed.
func (a *Activation) recordedStatic(con *FuncContract, fn *ssa.Function, args []Val, sig *types.Signature, st *State, pos token.Pos) (*State, []Val) {
	t := a.t
	t.assumed["assumed contract (trusted, not verified): "+con.Full] = true
	t.contractsUsed[con.Full] = true
	fv := Val{K: KFunc, S: t.funcID(fn)}
	pure := con.hasClause("modifies") && !con.hasClause("havoc")
	pre := st.clone()
	out, res := a.opaqueCallX(fv, args, sig, st, pos, con.Full, !pure)
	vars := map[string]Val{}
	for i, p := range fn.Params {
		if i < len(args) {
			vars[p.Name()] = args[i]
		}
	}
	for i, r := range res {
		vars[fmt.Sprintf("result_%d", i)] = r
	}
	env := &ExprEnv{t: t, st: out, old: pre, vars: vars, pkg: con.Pkg, callBase: pre}
	for _, c := range con.Clauses {
		if c.Kind == "ensures" {
			t.assume(out.pc, env.evalBool(c.Expr, c.Src))
		}
	}
	return out, res
}

// opaqueFuncTypeContract: call of a function value whose named type carries an assumed contract (e.g. context.CancelFunc).
func (a *Activation) opaqueFuncTypeContract(con *FuncContract, fv Val, args []Val, sig *types.Signature, st *State, pos token.Pos) (*State, []Val) {
	t := a.t
	t.assumed["assumed contract of function type (trusted): "+con.Full] = true
	pure := false
	for _, c := range con.Clauses {
		if c.Kind == "modifies" && !strings.Contains(c.Expr, "*") {
			pure = true
		}
	}
	pre := st.clone()
	out, res := a.opaqueCallX(fv, args, sig, st, pos, con.Full, !pure)
	vars := map[string]Val{"self": fv}
	for i, r := range res {
		vars[fmt.Sprintf("result_%d", i)] = r
	}
	env := &ExprEnv{t: t, st: pre, old: pre, vars: vars, pkg: con.Pkg, callBase: pre}
	targets, _, _ := t.resolveMods(env, con)
	for _, m := range targets {
		if m.ref != "" && m.array != "" {
			cur := t.lookup(out, m.array)
			srt := t.sortOfArray(m.array)
			inner := strings.TrimSuffix(strings.TrimPrefix(srt, "(Array Int "), ")")
			t.set(out, m.array, sApp("store", cur, m.ref, t.fresh(m.array+"@cv", inner)))
		}
	}
	penv := &ExprEnv{t: t, st: out, old: pre, vars: vars, pkg: con.Pkg, callBase: pre}
	for _, c := range con.Clauses {
		if c.Kind == "ensures" {
			t.assume(out.pc, penv.evalBool(c.Expr, c.Src))
		}
	}
	return out, res
}

// keepAcrossOpaque: arrays preserved across a call into unknown code.
func (e *Eng) keepAcrossOpaque(name string) bool {
	if strings.HasPrefix(name, "box:") {
		return true // boxed values are immutable
	}
	if strings.HasPrefix(name, "cell:") {
		return true // address-taken locals and captured variables are only reachable from the function and its closures
	}
	if e.con.Frozen[name] || e.con.Confined[name] {
		return true
	}
	// name is typekey + .path ; check prefixes "typekey.field"
	for k := range e.con.Frozen {
		if strings.HasPrefix(name, k+".") || strings.HasPrefix(name, k+"#") {
			return true
		}
	}
	for k := range e.con.Confined {
		if strings.HasPrefix(name, k+".") || strings.HasPrefix(name, k+"#") {
			return true
		}
	}
	return false
}

// ---- interface method calls ----

// mthTerm: ghost identity of "method m of interface value recv" as a callable; injective in (m, recv) and
// disjoint from real function values.
func (t *Task) mthTerm(method string, recv string) string {
	f := t.declareFun("$mth", []string{"Int", "Int"}, "Int")
	if t.quantDepth > 0 && !t.pureDone["mthaxiom"] {
		// method identities of quantified receivers need the general injectivity axiom (quantified: costs the
		// solvers their ability to answer "sat", so it is only added when a specification really needs it)
		t.pureDone["mthaxiom"] = true
		fm := t.declareFun("$mthm", []string{"Int"}, "Int")
		fr := t.declareFun("$mthr", []string{"Int"}, "Int")
		t.lateFacts = append(t.lateFacts, "(forall ((m Int) (r Int)) (! (and (= ("+fm+" ("+f+" m r)) m) (= ("+fr+" ("+f+" m r)) r) (= ("+t.fkind()+" ("+f+" m r)) 3) (> ("+f+" m r) 0)) :pattern (("+f+" m r))))")
	}
	id := t.eng.methID(method)
	term := sApp(f, sInt(int64(id)), recv)
	key := "mthinj:" + term
	if !t.pureDone[key] && t.quantDepth == 0 {
		t.pureDone[key] = true
		fm := t.declareFun("$mthm", []string{"Int"}, "Int")
		fr := t.declareFun("$mthr", []string{"Int"}, "Int")
		t.lateFacts = append(t.lateFacts, sAnd(sEq(sApp(fm, term), sInt(int64(id))), sEq(sApp(fr, term), recv), sEq(sApp(t.fkind(), term), "3"), "(> "+term+" 0)"))
	}
	return term
}

func (t *Task) fkind() string { return t.declareFun("$fkind", []string{"Int"}, "Int") }

// funcValFact: a value of function type is a real function value, never a ghost method identity.
func (t *Task) funcValFact(pc, term string) {
	t.assume(pc, sNot(sEq(sApp(t.fkind(), term), "3")))
}

// funcTypeFact: function values of different Go types are different values.
func (t *Task) funcTypeFact(pc, term string, T types.Type) {
	if T == nil {
		return
	}
	if _, ok := T.Underlying().(*types.Signature); !ok {
		return
	}
	ft := t.declareFun("$ftype", []string{"Int"}, "Int")
	t.assume(pc, sOr(sEq(term, "0"), sEq(sApp(ft, term), sInt(int64(t.eng.tagOf(T.Underlying()))))))
}

func (a *Activation) invoke(recv Val, m *types.Func, args []Val, sig *types.Signature, st *State, pos token.Pos) (*State, []Val) {
	out, res := a.invoke0(recv, m, args, sig, st, pos)
	if out != nil && !out.dead {
		if con := a.rootContract(); con != nil {
			for _, c := range con.Clauses {
				if c.Kind == "oncall" && c.Name == m.Name() {
					ra := a.rootAct()
					if len(res) > 0 {
						ra.lets["callresult"] = res[0]
					}
					for ri, rv := range res {
						ra.lets[fmt.Sprintf("callresult_%d", ri)] = rv
					}
					ra.lets["callarg_0"] = recv
					for ai, av := range args {
						ra.lets[fmt.Sprintf("callarg_%d", ai+1)] = av
					}
					a.ghostAssign(out, c)
					for ai := 0; ai <= len(args); ai++ {
						delete(ra.lets, fmt.Sprintf("callarg_%d", ai))
					}
					delete(ra.lets, "callresult")
					for ri := range res {
						delete(ra.lets, fmt.Sprintf("callresult_%d", ri))
					}
				}
			}
		}
	}
	return out, res
}

func (a *Activation) invoke0(recv Val, m *types.Func, args []Val, sig *types.Signature, st *State, pos token.Pos) (*State, []Val) {
	t := a.t
	a.obligeSafety(st, "nil", "method call on nil interface", sNot(sEq(recv.S, "0")), pos)
	// 1. statically known dynamic type
	if recv.Dyn != nil {
		if fn, _ := t.eng.methodOfPath(recv.Dyn, m); fn == nil {
			if epath := t.eng.embeddedIfacePath(recv.Dyn, m); epath != nil {
				rv := t.unbox(st, recv, recv.Dyn)
				rv.T = recv.Dyn
				inner := a.recvThroughPath(st, rv, epath, nil, pos)
				if inner.K == KIface {
					return a.invoke(inner, m, args, sig, st, pos)
				}
			}
		}
		if fn, path := t.eng.methodOfPath(recv.Dyn, m); fn != nil {
			rv := t.unbox(st, recv, recv.Dyn)
			rv.T = recv.Dyn
			rv = a.recvThroughPath(st, rv, path, nil, pos)
			return a.callStatic(fn, append([]Val{rv}, args...), nil, st, pos, sig)
		}
	}
	IT := recv.T
	// 2. interface-level contract / model (foreign interfaces such as Stopwatch, Clock, Cache, context.Context)
	iname := typeKey(IT) + "." + m.Name()
	if st2, res, ok := a.model("iface:"+iname, nil, append([]Val{recv}, args...), st, pos, sig); ok {
		return st2, res
	}
	// (a 'dyntype' hint of the contract under verification is more specific than an interface-level contract)
	if cons := t.eng.con.Funcs[iname]; len(cons) > 0 && len(a.hintedTypes(IT)) == 0 {
		return a.opaqueWithContract(cons[0], recv, m.Name(), args, sig, st, pos)
	}
	// 3. closed world of module types implementing the interface, or the candidates named by a
	//    'dyntype' clause of the contract under verification (the residual branch stays opaque)
	cands := t.eng.implementers(IT)
	hinted := false
	a.hintExclusive = false
	if hc := a.hintedTypes(IT); len(hc) > 0 {
		cands = hc
		hinted = !a.hintExclusive
	}
	if len(cands) == 0 {
		// opaque method call
		fv := Val{K: KFunc, S: t.mthTerm(m.Name(), recv.S)}
		key := "mthnz:" + fv.S
		if !t.pureDone[key] {
			t.pureDone[key] = true
			t.assume(st.pc, "(> "+fv.S+" 0)")
		}
		return a.opaqueCall(fv, args, sig, st, pos, iname)
	}
	var edges []mergeEdge
	var pcs []string
	var results [][]Val
	var conds []string
	for _, CT := range cands {
		tag := t.eng.tagOf(CT)
		cond := sEq(sApp(t.ifTag(), recv.S), sInt(int64(tag)))
		conds = append(conds, cond)
		fn, path := t.eng.methodOfPath(CT, m)
		bst := st.clone()
		bst.pc = t.namedPc(sAnd(st.pc, cond))
		rv := t.unbox(bst, recv, CT)
		rv.T = CT
		var out *State
		var res []Val
		if fn == nil {
			// promoted from an embedded interface field: the call goes to that interface value
			epath := t.eng.embeddedIfacePath(CT, m)
			if epath == nil || a.depth > maxInlineDepth {
				continue
			}
			inner := a.recvThroughPath(bst, rv, epath, nil, pos)
			if inner.K != KIface {
				continue
			}
			sub := *a
			sub.depth = a.depth + 1
			out, res = a.invoke(inner, m, args, sig, bst, pos)
		} else {
			rv = a.recvThroughPath(bst, rv, path, nil, pos)
			out, res = a.callStatic(fn, append([]Val{rv}, args...), nil, bst, pos, sig)
		}
		if out == nil || out.dead {
			continue
		}
		edges = append(edges, mergeEdge{out.pc, out})
		pcs = append(pcs, out.pc)
		results = append(results, res)
	}
	if hinted {
		// residual branch: any other implementation is a call into unknown code
		rst := st.clone()
		rst.pc = t.namedPc(sAnd(st.pc, sNot(sOr(conds...))))
		fv := Val{K: KFunc, S: t.mthTerm(m.Name(), recv.S)}
		out, res := a.opaqueCall(fv, args, sig, rst, pos, iname)
		if out != nil && !out.dead {
			edges = append(edges, mergeEdge{out.pc, out})
			pcs = append(pcs, out.pc)
			results = append(results, res)
		}
	} else {
		// the dynamic type must be one of the module's implementers (closed world): obligation
		a.obligeSafety(st, "dyntype", "closed-world dispatch of "+iname, sOr(conds...), pos)
	}
	out := t.mergeStates(edges)
	if out == nil {
		return nil, nil
	}
	var res []Val
	if len(results) > 0 {
		for i := range results[0] {
			var vs []Val
			for _, r := range results {
				vs = append(vs, r[i])
			}
			res = append(res, t.mergeVals(pcs, vs, m.Name()+".r"))
		}
	}
	return out, res
}

// implementers: module types (pointer or value) implementing interface IT, when IT is a module-internal
// interface whose implementations are all in the module (unexported methods or unexported interface).
func (e *Eng) implementers(IT types.Type) []types.Type {
	key := typeKey(IT)
	if r, ok := e.implCache[key]; ok {
		return r
	}
	var out []types.Type
	named, _ := types.Unalias(IT).(*types.Named)
	if named == nil || named.Obj().Pkg() == nil {
		e.implCache[key] = nil
		return nil
	}
	if _, ok := e.pkgs[named.Obj().Pkg().Path()]; !ok {
		e.implCache[key] = nil
		return nil
	}
	it, _ := IT.Underlying().(*types.Interface)
	if it == nil {
		return nil
	}
	closed := !named.Obj().Exported()
	for i := 0; i < it.NumMethods(); i++ {
		if !it.Method(i).Exported() {
			closed = true
		}
	}
	if !closed {
		e.implCache[key] = nil
		return nil
	}
	var paths []string
	for p := range e.pkgs {
		paths = append(paths, p)
	}
	sort.Strings(paths)
	for _, p := range paths {
		scope := e.pkgs[p].Types.Scope()
		for _, n := range scope.Names() {
			tn, ok := scope.Lookup(n).(*types.TypeName)
			if !ok || tn.IsAlias() {
				continue
			}
			T := tn.Type()
			if _, isI := T.Underlying().(*types.Interface); isI {
				continue
			}
			for _, C := range []types.Type{T, types.NewPointer(T)} {
				if implementsErased(C, it) {
					out = append(out, C)
					break
				}
			}
		}
	}
	e.implCache[key] = out
	return out
}

// methodOf finds the function implementing method m for dynamic type T (generic origin).
func (e *Eng) methodOf(T types.Type, m *types.Func) *ssa.Function {
	fn, _ := e.methodOfPath(T, m)
	return fn
}

// methodOfPath also returns the embedding path (field indices) from T to the method's receiver.
func (e *Eng) methodOfPath(T types.Type, m *types.Func) (*ssa.Function, []int) {
	obj, index, _ := types.LookupFieldOrMethod(T, true, m.Pkg(), m.Name())
	fo, ok := obj.(*types.Func)
	if !ok {
		return nil, nil
	}
	fn := e.prog.FuncValue(fo.Origin())
	if len(index) > 0 {
		index = index[:len(index)-1]
	}
	return fn, index
}

// embeddedIfacePath: field path from T to the embedded interface that provides method m (nil when m is concrete).
func (e *Eng) embeddedIfacePath(T types.Type, m *types.Func) []int {
	obj, index, _ := types.LookupFieldOrMethod(T, true, m.Pkg(), m.Name())
	fo, ok := obj.(*types.Func)
	if !ok || len(index) < 2 {
		return nil
	}
	if sig, ok := fo.Type().(*types.Signature); ok && sig.Recv() != nil {
		if _, isI := sig.Recv().Type().Underlying().(*types.Interface); isI {
			return index[:len(index)-1]
		}
	}
	return nil
}

// recvThroughPath loads the embedded receiver along path (as Go's promoted-method wrappers do).
func (a *Activation) recvThroughPath(st *State, rv Val, path []int, want types.Type, pos token.Pos) Val {
	t := a.t
	cur := rv
	for _, fi := range path {
		switch cur.K {
		case KRef:
			T := derefType(cur.T)
			s := structOf(T)
			if s == nil {
				t.errorf("embedding path through non-struct %s", cur.T)
				return cur
			}
			f := s.Field(fi)
			prefix, ref, idx := locOf(cur, T)
			a.nilCheck(cur, st, pos, "embedded "+f.Name())
			if kindOfType(f.Type()) == KStruct {
				cur = Val{K: KRef, T: types.NewPointer(f.Type()), S: ref, Loc: &Loc{Prefix: prefix + "." + f.Name(), Idx: idx}}
			} else {
				cur = t.loadAt(st, prefix, "."+f.Name(), ref, idx, f.Type())
			}
		case KStruct:
			cur = cur.Fields[fi]
		default:
			t.errorf("embedding path through %s", cur.K)
			return cur
		}
	}
	return cur
}

// ---- builtins ----

func (a *Activation) builtin(b *ssa.Builtin, c *ssa.CallCommon, args []Val, st *State, pos token.Pos) (*State, []Val) {
	t := a.t
	switch b.Name() {
	case "len":
		x := args[0]
		switch x.K {
		case KSlice:
			return st, []Val{x.Fields[1]}
		case KStr:
			f := t.declareFun("$strlen", []string{"Int"}, "Int")
			r := sApp(f, x.S)
			t.assume(st.pc, "(>= "+r+" 0)")
			return st, []Val{{K: KInt, S: r, T: types.Typ[types.Int]}}
		case KRef: // channel / map
			if _, ok := c.Args[0].Type().Underlying().(*types.Chan); ok {
				l := t.fresh("chanlen", "Int")
				t.assume(st.pc, "(>= "+l+" 0)")
				return st, []Val{{K: KInt, S: l, T: types.Typ[types.Int]}}
			}
		}
	case "cap":
		if args[0].K == KSlice {
			return st, []Val{args[0].Fields[1]}
		}
	case "min", "max":
		r := args[0]
		for _, y := range args[1:] {
			var cond string
			switch r.K {
			case KInt:
				if t.bv {
					cond = "(bvsle " + r.S + " " + y.S + ")"
				} else {
					cond = "(<= " + r.S + " " + y.S + ")"
				}
			case KF64:
				cond = "(<= " + r.S + " " + y.S + ")"
			default:
				t.errorf("%s: %s on %s", a.fn, b.Name(), r.K)
				cond = tTrue
			}
			if b.Name() == "max" {
				r.S = sIte(cond, y.S, r.S)
			} else {
				r.S = sIte(cond, r.S, y.S)
			}
		}
		return st, []Val{r}
	case "append":
		return a.appendOp(c, args, st, pos)
	case "close":
		t.regArray("$chanclosed", "(Array Int Bool)")
		cl := t.lookup(st, "$chanclosed")
		a.obligeSafety(st, "closeclosed", "close of closed channel", sNot(sApp("select", cl, args[0].S)), pos)
		t.set(st, "$chanclosed", sApp("store", cl, args[0].S, tTrue))
		a.ghostEvent(st, "close", args[0].S)
		return st, nil
	case "print", "println":
		return st, nil
	case "recover":
		return st, []Val{{K: KIface, S: "0", T: c.Signature().Results().At(0).Type()}}
	case "copy", "delete", "new", "panic", "real", "imag", "complex", "clear":
	}
	t.errorf("%s: builtin %s outside the subset", a.fn, b.Name())
	return a.opaqueResult(st, c.Signature(), b.Name())
}

func (a *Activation) appendOp(c *ssa.CallCommon, args []Val, st *State, pos token.Pos) (*State, []Val) {
	t := a.t
	s := args[0]
	add := args[1]
	ST, ok := c.Args[0].Type().Underlying().(*types.Slice)
	if !ok || s.K != KSlice || add.K != KSlice {
		t.errorf("%s: append outside the subset", a.fn)
		return a.opaqueResult(st, c.Signature(), "append")
	}
	ET := ST.Elem()
	// supported shape: append(s, x) with a one-element variadic slice (len term "1")
	if add.Fields[1].S != "1" {
		t.errorf("%s: append of a slice of unknown length outside the subset", a.fn)
		return a.opaqueResult(st, c.Signature(), "append")
	}
	nref := a.allocRef(st, "slice", "append")
	for _, lf := range t.leavesOf(ET) {
		name := "elem:" + prefixFor(ET) + lf.path
		es := sortOfKind(lf.kind)
		t.regArray(name, "(Array Int (Array Int "+es+"))")
		cur := t.lookup(st, name)
		x := sApp("select", sApp("select", cur, add.Fields[0].S), "0")
		inner := sApp("store", sApp("select", cur, s.Fields[0].S), s.Fields[1].S, x)
		nt := sApp("store", cur, nref, inner)
		cn := t.fresh(name+"@s", t.sortOfArray(name))
		t.asserts = append(t.asserts, sEq(cn, nt))
		st.heap[name] = cn
	}
	nl := "(+ " + s.Fields[1].S + " 1)"
	return st, []Val{{K: KSlice, T: c.Args[0].Type(), Fields: []Val{{K: KRef, S: nref}, {K: KInt, S: nl, T: types.Typ[types.Int]}}}}
}

// ghostEvent stamps an ordering event (used for C15's store < flag < close protocol).
func (a *Activation) ghostEvent(st *State, kind, obj string) {
	t := a.t
	t.regArray("$tick", "Int")
	tick := t.lookup(st, "$tick")
	name := "$ev:" + kind
	t.regArray(name, "(Array Int Int)")
	t.set(st, name, sApp("store", t.lookup(st, name), obj, tick))
	t.set(st, "$tick", "(+ "+tick+" 1)")
}

// ---- loops ----

func (a *Activation) loopClauses(ord int, kind string) []Clause {
	var out []Clause
	con := a.conForLoops()
	if con == nil {
		return nil
	}
	for _, c := range con.Clauses {
		if c.Kind == kind && c.Loop == ord {
			out = append(out, c)
		}
	}
	return out
}

func (a *Activation) conForLoops() *FuncContract {
	if a.con != nil {
		return a.con
	}
	cons := a.t.eng.con.Funcs[fullName(a.fn)]
	if len(cons) > 0 {
		return cons[0]
	}
	return nil
}

func (a *Activation) loopHead(li *loopInfo, b *ssa.BasicBlock, st *State) *State {
	t := a.t
	invs := a.loopClauses(li.ord, "loopinv")
	fname := fullName(a.fn)
	if len(invs) == 0 {
		t.errorf("%s: loop %d has no invariant (every loop needs one)", fname, li.ord)
	}
	// 1. invariant on entry
	env := a.exprEnv(st, nil)
	for i, c := range invs {
		parts := splitConj(c.Expr)
		for pi, part := range parts {
			v := env.evalBool(part, c.Src)
			name := fmt.Sprintf("%s#loop%d.entry[%s]", fname, li.ord, labelOr(c.Label, i))
			if len(parts) > 1 {
				name = fmt.Sprintf("%s#loop%d.entry[%s/%d]", fname, li.ord, labelOr(c.Label, i), pi+1)
			}
			t.oblige("loopinv", name, c.Label, st.pc, v, c.Src, part)
		}
	}
	// ghost locals written by call hooks may have been written by earlier iterations: arbitrary at the head (an invariant
	// has to say what is known about them). Hook targets are read off the contract, so this does not depend on visit order.
	if con := a.rootContract(); con != nil && a.rootAct() == a {
		for _, c := range con.Clauses {
			if c.Kind != "oncall" && c.Kind != "beforecall" && c.Kind != "onwrite" {
				continue
			}
			for _, as := range strings.Split(c.Expr, ";") {
				k := strings.Index(as, ":=")
				if k < 0 {
					continue
				}
				name := strings.TrimSpace(as[:k])
				if strings.ContainsAny(name, ".[ ") {
					continue
				}
				if old, ok := a.lets[name]; ok && old.isScalar() {
					nv := old
					nv.S = t.fresh("ghost:"+name+"@loop", old.sort())
					a.lets[name] = nv
				}
			}
		}
	}
	// remember the values for 'decreases'
	// 2. havoc loop-carried values and the heap written in the loop
	for _, in := range b.Instrs {
		phi, ok := in.(*ssa.Phi)
		if !ok {
			break
		}
		old := a.env[phi]
		nv := t.freshValue(st.pc, a.fn.Name()+"."+phiName(phi)+"@loop", phi.Type())
		nv.T = old.T
		if old.K == KRef && old.Loc != nil {
			t.errorf("%s: loop-carried interior pointer: outside the subset", fname)
		}
		a.env[phi] = nv
	}
	mods, all := a.loopModSet(li)
	anyCalls := mods["$anycalls"] || all
	anyAlloc := mods["$anyalloc"] || anyCalls
	nst := t.havocState(st, func(name string) bool {
		if all {
			return t.eng.keepAcrossOpaque(name)
		}
		return !mods[name]
	})
	nst.base.loopHavoc = true
	// refined havoc: arrays only written at loop-invariant locations or at objects allocated inside the loop
	if !all {
		t.regArray("$now", "Int")
		nowPre := t.lookup(st, "$now")
		age := t.declareFun("$age", []string{"Int"}, "Int")
		var names []string
		for name := range a.loopModes {
			names = append(names, name)
		}
		sort.Strings(names)
		for _, name := range names {
			m := a.loopModes[name]
			if m.full || !mods[name] {
				continue
			}
			srt, ok := t.arrSort[name]
			if !ok || !strings.HasPrefix(srt, "(Array Int") {
				continue
			}
			pre := t.lookup(st, name)
			var pts []string
			okPts := true
			for _, pv := range m.points {
				v, have := a.env[pv]
				if !have {
					if _, isP := pv.(*ssa.Parameter); !isP {
						okPts = false
						break
					}
					v = a.val(pv, st)
				}
				if v.K == KSlice {
					pts = append(pts, v.Fields[0].S)
				} else {
					pts = append(pts, v.S)
				}
			}
			if !okPts {
				continue
			}
			nv := t.lookup(nst, name) // fresh constant
			if !m.fresh {
				// exactly the listed points may differ
				cur := pre
				for _, pt := range pts {
					cur = sApp("store", cur, pt, sApp("select", nv, pt))
				}
				t.asserts = append(t.asserts, sImp(st.pc, sEq(nv, cur)))
			} else {
				var prem []string
				prem = append(prem, "(< "+sApp(age, "r")+" "+nowPre+")")
				for _, pt := range pts {
					prem = append(prem, sNot(sEq("r", pt)))
				}
				t.asserts = append(t.asserts, sImp(st.pc, "(forall ((r Int)) (! (=> "+sAnd(prem...)+" (= (select "+nv+" r) (select "+pre+" r))) :pattern ((select "+nv+" r))))"))
			}
		}
	}
	// ghost control state that the loop body may change
	for _, g := range []string{"$calls", "$tick", "$now", "$otick", "$held", "$tok", "$sends", "$timerfired", "$chanclosed", "$spawned"} {
		if g == "$now" && !anyAlloc {
			continue
		}
		if g != "$now" && !anyCalls {
			continue
		}
		if _, ok := t.arrSort[g]; ok {
			old := t.lookup(st, g)
			nv := t.fresh(g+"@loop", t.sortOfArray(g))
			t.set(nst, g, nv)
			if g == "$now" || g == "$tick" {
				t.assume(st.pc, "(>= "+nv+" "+old+")")
			}
		}
	}
	for name := range t.arrSort {
		if anyCalls && (strings.HasPrefix(name, "$oarg") || strings.HasPrefix(name, "$ev:") || strings.HasPrefix(name, "$g:") || strings.HasPrefix(name, "$timer") || strings.HasPrefix(name, "$chanmsg")) {
			nv := t.fresh(name+"@loop", t.sortOfArray(name))
			t.set(nst, name, nv)
		}
	}
	// 3. assume the invariant
	env2 := a.exprEnv(nst, nil)
	for _, c := range invs {
		v := env2.evalBool(c.Expr, c.Src)
		t.assume(nst.pc, v)
	}
	// call counters only grow
	if anyCalls {
		if _, ok := t.arrSort["$calls"]; ok {
			nc, oc := t.lookup(nst, "$calls"), t.lookup(st, "$calls")
			t.assume(nst.pc, "(forall ((|r!m| Int)) (! (>= (select "+nc+" |r!m|) (select "+oc+" |r!m|)) :pattern ((select "+nc+" |r!m|))))")
		}
	}
	// implicit invariant: the call counters change only where the contract's modifies clauses allow
	if anyCalls {
		if f := a.callsFrame(nst, "r!q"); f != "" {
			t.assume(nst.pc, "(forall ((|r!q| Int)) (! "+f+" :pattern ((select "+t.lookup(nst, "$calls")+" |r!q|))))")
		}
	}
	return nst
}

// callsFrame: "calls[r] is unchanged since entry unless r is a calls(...) target of the root contract".
func (a *Activation) callsFrame(st *State, r string) string {
	t := a.t
	ra := a.rootAct()
	if ra == nil || ra.con == nil {
		return ""
	}
	env := ra.exprEnv(st, nil)
	env.old = ra.entry
	saved := t.quantDepth
	t.quantDepth++ // no side facts while evaluating targets
	targets, _, _ := t.resolveMods(env, ra.con)
	t.quantDepth = saved
	var prem []string
	for _, m := range targets {
		if m.isPrefix && m.array == "" {
			return "" // modifies *: no claim about the counters
		}
		if m.methodCalls {
			prem = append(prem, sNot(sEq(sApp(t.fkind(), smtName(r)), "3")))
		}
		if m.callsOf != "" {
			prem = append(prem, sNot(sEq(smtName(r), m.callsOf)))
		}
	}
	rr := smtName(r)
	return sImp(sAnd(prem...), sEq(sApp("select", t.callsArr(st), rr), sApp("select", t.callsArr(ra.entry), rr)))
}

func labelOr(l string, i int) string {
	if l != "" {
		return l
	}
	return fmt.Sprintf("%d", i)
}

func (a *Activation) loopBack(li *loopInfo, from, header *ssa.BasicBlock, pc string, st *State) {
	t := a.t
	fname := fullName(a.fn)
	invs := a.loopClauses(li.ord, "loopinv")
	decs := a.loopClauses(li.ord, "loopdec")
	// evaluate 'decreases' with the header values first
	var before []string
	hst := st.clone()
	hst.pc = pc
	envH := a.exprEnv(hst, nil)
	for _, c := range decs {
		before = append(before, envH.evalInt(c.Expr, c.Src))
	}
	// bind phis to the values flowing along the back edge
	saved := map[*ssa.Phi]Val{}
	for _, in := range header.Instrs {
		phi, ok := in.(*ssa.Phi)
		if !ok {
			break
		}
		for pi, p := range header.Preds {
			if p == from {
				saved[phi] = a.env[phi]
				defer func(phi *ssa.Phi, v Val) { a.env[phi] = v }(phi, a.env[phi])
				_ = pi
			}
		}
	}
	newv := map[*ssa.Phi]Val{}
	for phi := range saved {
		for pi, p := range header.Preds {
			if p == from {
				newv[phi] = a.val(phi.Edges[pi], hst)
			}
		}
	}
	for phi, v := range newv {
		a.env[phi] = v
	}
	env := a.exprEnv(hst, nil)
	for i, c := range invs {
		parts := splitConj(c.Expr)
		for pi, part := range parts {
			v := env.evalBool(part, c.Src)
			name := fmt.Sprintf("%s#loop%d.preserved@b%d[%s]", fname, li.ord, from.Index, labelOr(c.Label, i))
			if len(parts) > 1 {
				name = fmt.Sprintf("%s#loop%d.preserved@b%d[%s/%d]", fname, li.ord, from.Index, labelOr(c.Label, i), pi+1)
			}
			t.oblige("loopinv", name, c.Label, pc, v, c.Src, part)
		}
	}
	if _, ok := t.arrSort["$calls"]; ok {
		rc := t.fresh("frame:rc", "Int")
		rname := strings.Trim(rc, "|")
		if f := a.callsFrame(hst, rname); f != "" && f != tTrue {
			name := fmt.Sprintf("%s#loop%d.preserved@b%d[frame.calls]", fname, li.ord, from.Index)
			t.oblige("loopinv", name, "", pc, f, "", "call counters change only at the modifies targets")
		}
	}
	for i, c := range decs {
		after := env.evalInt(c.Expr, c.Src)
		name := fmt.Sprintf("%s#loop%d.decreases@b%d[%s]", fname, li.ord, from.Index, labelOr(c.Label, i))
		t.oblige("decreases", name, c.Label, pc, sAnd("(< "+after+" "+before[i]+")", "(>= "+before[i]+" 0)"), c.Src, c.Expr)
	}
}

// loopModSet: heap arrays possibly written in the loop body; all=true when unknown code is called.
type arrMode struct {
	full   bool
	fresh  bool
	points []ssa.Value
}

// classifyAddr: is the stored-to object allocated inside the loop (fresh), or named by a value defined
// outside the loop (outside, root)?
func (a *Activation) classifyAddr(addr ssa.Value, li *loopInfo, depth int) (root ssa.Value, fresh, outside bool) {
	if depth > 0 {
		return nil, false, false
	}
	v := addr
	for {
		switch x := v.(type) {
		case *ssa.FieldAddr:
			v = x.X
			continue
		case *ssa.IndexAddr:
			// element of an array allocated in the loop (varargs) -> fresh; element of a slice: unknown
			if al, ok := x.X.(*ssa.Alloc); ok && li.blocks[al.Block()] {
				return nil, true, false
			}
			// element of a slice / array value that is fixed during the loop: only that backing store is written
			switch xv := x.X.(type) {
			case *ssa.Parameter, *ssa.FreeVar:
				return xv, false, true
			case ssa.Instruction:
				if !li.blocks[xv.Block()] {
					return x.X, false, true
				}
			}
			return nil, false, false
		case *ssa.Alloc:
			if li.blocks[x.Block()] {
				return nil, true, false
			}
			return x, false, true
		case *ssa.Parameter, *ssa.FreeVar:
			return x, false, true
		case ssa.Instruction:
			if !li.blocks[x.Block()] {
				return v, false, true
			}
			return nil, false, false
		}
		return nil, false, false
	}
}

// storeTouches: could the store through addr write array name?
func (a *Activation) storeTouches(addr ssa.Value, name string) bool {
	prefix, ok := a.addrPrefix(addr)
	if !ok {
		if T := derefType(addr.Type()); T != nil {
			prefix = prefixFor(T)
		}
	}
	return strings.HasPrefix(name, prefix)
}

func (a *Activation) loopModSet(li *loopInfo) (map[string]bool, bool) {
	mods := map[string]bool{}
	a.loopModes = map[string]*arrMode{}
	all := false
	seen := map[*ssa.Function]bool{}
	var scanFn func(fn *ssa.Function, blocks map[*ssa.BasicBlock]bool, depth int)
	scanInstr := func(in ssa.Instruction, depth int) {
		switch in := in.(type) {
		case *ssa.Store:
			before := map[string]bool{}
			for k := range mods {
				before[k] = true
			}
			a.addStoreTargets(in.Addr, mods)
			root, fresh, outside := a.classifyAddr(in.Addr, li, depth)
			for k := range mods {
				if strings.HasPrefix(k, "$") {
					continue
				}
				touched := !before[k] || a.storeTouches(in.Addr, k)
				if !touched {
					continue
				}
				m := a.loopModes[k]
				if m == nil {
					m = &arrMode{}
					a.loopModes[k] = m
				}
				switch {
				case fresh:
					m.fresh = true
				case outside && root != nil:
					dup := false
					for _, p := range m.points {
						if p == root {
							dup = true
						}
					}
					if !dup {
						m.points = append(m.points, root)
					}
				default:
					m.full = true
				}
			}
		case *ssa.MapUpdate, *ssa.Send, *ssa.Select, *ssa.Go:
			all = true
		case *ssa.Alloc, *ssa.MakeClosure, *ssa.MakeInterface, *ssa.MakeSlice, *ssa.MakeChan, *ssa.MakeMap:
			mods["$anyalloc"] = true
		case ssa.CallInstruction:
			c := in.Common()
			if c.IsInvoke() {
				iname := typeKey(c.Value.Type()) + "." + c.Method.Name()
				if cons := a.t.eng.con.Funcs[iname]; len(cons) > 0 && cons[0].hasClause("modifies") && !cons[0].hasClause("havoc") {
					mods["$anycalls"] = true
					return
				}
				all = true
				return
			}
			if _, ok := c.Value.(*ssa.Builtin); ok {
				if c.Value.Name() == "append" {
					mods["$anyalloc"] = true
					if st, ok := c.Args[0].Type().Underlying().(*types.Slice); ok {
						pre := "elem:" + prefixFor(st.Elem())
						for _, lf := range a.t.leavesOf(st.Elem()) {
							n := pre + lf.path
							a.t.regArray(n, "(Array Int (Array Int "+sortOfKind(lf.kind)+"))")
							mods[n] = true
							m := a.loopModes[n]
							if m == nil {
								m = &arrMode{}
								a.loopModes[n] = m
							}
							m.fresh = true
						}
					}
					// element arrays created later are fresh per allocation anyway
				}
				return
			}
			callee := c.StaticCallee()
			if callee == nil {
				if a.hasClause("purecalls") {
					return
				}
				all = true
				return
			}
			mods["$anycalls"] = true
			if o := callee.Origin(); o != nil {
				callee = o
			}
			name := fullName(callee)
			if pureModel[name] {
				return
			}
			if cons := a.t.eng.con.Funcs[name]; len(cons) > 0 && !cons[0].Inline {
				// modifies clauses name fields: conservatively havoc by field name match
				for _, cl := range cons[0].Clauses {
					if cl.Kind == "modifies" {
						for _, m := range splitList(cl.Expr) {
							if m == "*" {
								all = true
							}
							a.addModifiesPattern(m, callee, mods)
						}
					}
					if cl.Kind == "havoc" {
						all = true
					}
				}
				return
			}
			if a.t.eng.inModule(callee) && len(callee.Blocks) > 0 && depth < 6 {
				if !seen[callee] {
					seen[callee] = true
					scanFn(callee, nil, depth+1)
				}
				return
			}
			all = true
		}
	}
	scanFn = func(fn *ssa.Function, blocks map[*ssa.BasicBlock]bool, depth int) {
		for _, b := range fn.Blocks {
			if blocks != nil && !blocks[b] {
				continue
			}
			for _, in := range b.Instrs {
				scanInstr(in, depth)
			}
		}
	}
	scanFn(a.fn, li.blocks, 0)
	return mods, all
}

func (a *Activation) addStoreTargets(addr ssa.Value, mods map[string]bool) {
	// derive the array prefix syntactically from the address expression
	prefix, ok := a.addrPrefix(addr)
	if !ok {
		// unknown: mark everything of the pointee type
		T := derefType(addr.Type())
		if T != nil {
			prefix = prefixFor(T)
		}
	}
	T := derefType(addr.Type())
	for _, lf := range a.t.leavesOf(T) {
		mods[prefix+lf.path] = true
	}
	// also any array registered under this prefix (elem: variants)
	for n := range a.t.arrSort {
		if strings.HasPrefix(n, prefix) {
			mods[n] = true
		}
	}
}

func (a *Activation) addrPrefix(addr ssa.Value) (string, bool) {
	switch v := addr.(type) {
	case *ssa.FieldAddr:
		ST := derefType(v.X.Type())
		f := structOf(ST).Field(v.Field)
		p, ok := a.addrPrefix(v.X)
		if !ok {
			p = prefixFor(ST)
		}
		return p + "." + f.Name(), true
	case *ssa.IndexAddr:
		switch xt := v.X.Type().Underlying().(type) {
		case *types.Slice:
			return "elem:" + prefixFor(xt.Elem()), true
		case *types.Pointer:
			if arr, ok := xt.Elem().Underlying().(*types.Array); ok {
				return "elem:" + prefixFor(arr.Elem()), true
			}
		}
	case *ssa.Global:
		return "global:" + v.Pkg.Pkg.Path() + "." + v.Name(), true
	}
	return "", false
}

func (a *Activation) addModifiesPattern(m string, callee *ssa.Function, mods map[string]bool) {
	// pattern "x.f.g" -> any registered array whose name ends with the field path of the receiver type
	k := strings.Index(m, ".")
	if k < 0 {
		return
	}
	path := m[k:]
	for n := range a.t.arrSort {
		if strings.HasSuffix(n, path) || strings.Contains(n, path+".") || strings.Contains(n, path+"#") {
			mods[n] = true
			if m := a.loopModes[n]; m != nil {
				m.full = true
			} else {
				a.loopModes[n] = &arrMode{full: true}
			}
		}
	}
	mods["$pattern:"+path] = true
}

// ---- mutex monitors, guards, ghost writes ----

func (a *Activation) guardCheck(st *State, prefix, ref string, pos token.Pos, write bool) {
	t := a.t
	for _, m := range t.eng.con.Monitors {
		tk := m.Pkg + "." + m.Type
		for _, g := range m.Guards {
			if prefix == tk+"."+g || strings.HasPrefix(prefix, tk+"."+g+".") || strings.HasPrefix(prefix, tk+"."+g+"#") {
				// private (not yet published) objects need no lock
				priv := false
				for _, p := range st.private {
					if p.ref == ref {
						priv = true
					}
				}
				if priv {
					continue
				}
				// 'unguarded f: reason' in the contract under verification: the unlocked access is justified outside the
				// monitor discipline (stated reason); no obligation is generated and the reason is listed as an assumption
				if rc := a.rootContract(); rc != nil {
					skip := false
					for _, c := range rc.Clauses {
						if c.Kind == "unguarded" {
							fl := c.Expr
							why := ""
							if k := strings.Index(fl, ":"); k >= 0 {
								fl, why = fl[:k], strings.TrimSpace(fl[k+1:])
							}
							for _, f := range splitList(fl) {
								if strings.TrimSpace(f) == g {
									skip = true
									t.assumed["unlocked access to "+m.Type+"."+g+" in "+shortName(rc.Full)+" is not checked against the monitor ("+why+")"] = true
								}
							}
						}
					}
					if skip {
						continue
					}
				}
				mref := a.mutexRefOf(st, m, ref)
				t.regArray("$held", "(Array Int Bool)")
				held := sApp("select", t.lookup(st, "$held"), mref)
				// objects allocated by the function under verification are not shared yet
				t.regArray("$now", "Int")
				age := t.declareFun("$age", []string{"Int"}, "Int")
				held = sOr(held, "(>= "+sApp(age, ref)+" "+t.lookup(a.rootAct().entry, "$now")+")")
				a.arith["guard"]++
				name := fmt.Sprintf("%s#guarded[%s.%s:%d]", fullName(a.fn), m.Type, g, a.arith["guard"])
				o := t.oblige("guarded", name, "C14.guarded."+m.Type+"."+g, st.pc, held, posStr(t.eng.fset, pos), "access to "+g+" requires "+m.Mutex)
				o.Fn = fullName(a.fn)
			}
		}
	}
}

// mutexRefOf: the identity of the mutex guarding object ref of monitor m.
func (a *Activation) mutexRefOf(st *State, m *Monitor, ref string) string {
	t := a.t
	tk := m.Pkg + "." + m.Type
	if m.PtrMtx {
		t.regArray(tk+"."+m.Mutex, "(Array Int Int)")
		return sApp("select", t.lookup(st, tk+"."+m.Mutex), ref)
	}
	f := t.declareFun("$mtxof:"+tk+"."+m.Mutex, []string{"Int"}, "Int")
	return sApp(f, ref)
}

func (a *Activation) afterWrite(st *State, prefix, ref string) {
	// ghost updates attached to writes of real fields
	con := a.rootContract()
	if con == nil {
		return
	}
	for _, c := range con.Clauses {
		if c.Kind != "onwrite" {
			continue
		}
		if !strings.HasSuffix(prefix, "."+c.Name) {
			continue
		}
		a.ghostAssign(st, c)
	}
}

func (a *Activation) rootContract() *FuncContract {
	for x := a; x != nil; x = x.callerA {
		if x.con != nil {
			return x.con
		}
	}
	return nil
}

func (a *Activation) rootAct() *Activation {
	x := a
	for x.callerA != nil && x.con == nil {
		x = x.callerA
	}
	return x
}

// ghostAssign executes "lhs := expr; lhs2 := expr2" against the current state.
func (a *Activation) ghostAssign(st *State, c Clause) {
	ra := a.rootAct()
	env := ra.exprEnv(st, nil)
	for _, as := range strings.Split(c.Expr, ";") {
		as = strings.TrimSpace(as)
		if as == "" {
			continue
		}
		if strings.HasPrefix(as, "assert ") {
			txt := strings.TrimSpace(as[7:])
			label := ""
			if m := labelRe.FindStringSubmatch(txt); m != nil {
				label = m[1]
				txt = txt[len(m[0]):]
			}
			v := env.evalBool(txt, c.Src)
			a.arith["assert"]++
			name := fmt.Sprintf("%s#assert[%s:%d]", fullName(a.rootAct().fn), labelOr(label, a.arith["assert"]), a.arith["assert"])
			o := a.t.oblige("assert", name, label, st.pc, v, c.Src, txt)
			o.Fn = fullName(a.rootAct().fn)
			continue
		}
		if strings.HasPrefix(as, "assume ") {
			v := env.evalBool(strings.TrimSpace(as[7:]), c.Src)
			a.t.assume(st.pc, v)
			a.t.assumed["assumption attached to a call ("+c.Src+"): "+strings.TrimSpace(as[7:])] = true
			continue
		}
		k := strings.Index(as, ":=")
		if k < 0 {
			a.t.errorf("%s: bad ghost assignment %q", c.Src, as)
			continue
		}
		env.assign(strings.TrimSpace(as[:k]), strings.TrimSpace(as[k+2:]), c.Src)
	}
}

// ---- deferred calls ----

func (a *Activation) runDeferred(d deferRec, st *State) *State {
	t := a.t
	// the deferred call runs only on paths that registered it
	if d.pc == st.pc || d.pc == tTrue {
		out, _ := a.callCommon(d.call, st, d.pos, d.args, &d.fnv)
		return out
	}
	// conditional: registered on some paths only
	yes := st.clone()
	yes.pc = t.namedPc(sAnd(st.pc, d.pc))
	no := st.clone()
	no.pc = t.namedPc(sAnd(st.pc, sNot(d.pc)))
	out, _ := a.callCommon(d.call, yes, d.pos, d.args, &d.fnv)
	var edges []mergeEdge
	if out != nil && !out.dead {
		edges = append(edges, mergeEdge{out.pc, out})
	}
	edges = append(edges, mergeEdge{no.pc, no})
	return t.mergeStates(edges)
}

// ---- not yet modelled constructs (reported, never silently skipped) ----

func (a *Activation) goStmt(in *ssa.Go, st *State) *State {
	t := a.t
	// spawn: the spawned function is verified separately; here only a ghost counter.
	t.regArray("$spawned", "Int")
	t.set(st, "$spawned", "(+ "+t.lookup(st, "$spawned")+" 1)")
	for _, x := range in.Call.Args {
		a.escape(st, a.val(x, st))
	}
	if !in.Call.IsInvoke() {
		fv := a.val(in.Call.Value, st)
		a.escape(st, fv)
		if fv.Clo != nil {
			fn := fv.Clo.Fn.(*ssa.Function)
			t.assumed["spawned goroutine "+fullName(fn)+" runs concurrently; its effects reach this thread only through channels, atomics and monitors (rely/guarantee, DESIGN 3.3)"] = true
		}
	}
	return st
}

func (a *Activation) mapOps(instr ssa.Instruction, st *State) *State {
	t := a.t
	if lk, ok := instr.(*ssa.Lookup); ok {
		if mt, ok := lk.X.Type().Underlying().(*types.Map); ok {
			// maps are read-only in this module: a lookup is a pure function of (map, key)
			t.assumed["map lookups are pure functions of (map, key): the module never writes the maps it reads"] = true
			m := a.val(lk.X, st)
			k := a.val(lk.Index, st)
			j := 0
			v := t.buildFromScalars(mt.Elem(), func(kd Kind, LT types.Type) string {
				f := t.declareFun(fmt.Sprintf("$mapget%d%s", j, sortSig(kd)), []string{"Int", "Int"}, sortOfKind(kd))
				j++
				term := sApp(f, m.S, k.S)
				if kd == KInt {
					t.assume(st.pc, inRangeTerm(term, LT))
				}
				return term
			})
			if v.K == KSlice {
				t.assume(st.pc, "(>= "+v.Fields[1].S+" 0)")
			}
			if lk.CommaOk {
				has := t.declareFun("$maphas", []string{"Int", "Int"}, "Bool")
				if keys, ok := a.globalMapLiteralKeys(lk.X); ok && k.K == KInt {
					// the key set of a package-level map literal is read from the package initialiser (this run's source)
					var eqs []string
					for _, c := range keys {
						eqs = append(eqs, sEq(k.S, c))
					}
					t.assume(st.pc, sEq(sApp(has, m.S, k.S), sOr(eqs...)))
				}
				a.env[lk] = Val{K: KTuple, T: lk.Type(), Fields: []Val{v, boolVal(sApp(has, m.S, k.S))}}
			} else {
				a.env[lk] = v
			}
			return st
		}
	}
	a.t.errorf("%s: map/range instruction %T outside the subset", a.fn, instr)
	if v, ok := instr.(ssa.Value); ok {
		a.env[v] = a.t.freshValue(st.pc, "map", v.Type())
	}
	return st
}

// globalMapLiteralKeys: x is a read of an unexported package-level map variable that the package initialiser sets to a
// map literal with constant integer keys, and that no function of the package stores to or updates. Returns the keys.
func (a *Activation) globalMapLiteralKeys(x ssa.Value) ([]string, bool) {
	u, ok := x.(*ssa.UnOp)
	if !ok || u.Op != token.MUL {
		return nil, false
	}
	g, ok := u.X.(*ssa.Global)
	if !ok || g.Object() == nil || g.Object().Exported() {
		return nil, false
	}
	initFn := g.Pkg.Func("init")
	if initFn == nil {
		return nil, false
	}
	var mk *ssa.MakeMap
	stores := 0
	var fns []*ssa.Function
	for _, mem := range g.Pkg.Members {
		if f, ok := mem.(*ssa.Function); ok {
			fns = append(fns, f)
		}
	}
	for i := 0; i < len(fns); i++ {
		fns = append(fns, fns[i].AnonFuncs...)
	}
	for _, f := range fns {
		for _, b := range f.Blocks {
			for _, in := range b.Instrs {
				switch in := in.(type) {
				case *ssa.Store:
					if in.Addr == g {
						stores++
						if m, ok := in.Val.(*ssa.MakeMap); ok && f == initFn {
							mk = m
						}
					}
				case *ssa.MapUpdate:
					// an update of a map read from the variable anywhere else disqualifies the literal reading
					if uu, ok := in.Map.(*ssa.UnOp); ok && uu.X == g {
						return nil, false
					}
				}
			}
		}
	}
	if mk == nil || stores != 1 {
		return nil, false
	}
	var keys []string
	for _, b := range initFn.Blocks {
		for _, in := range b.Instrs {
			if mu, ok := in.(*ssa.MapUpdate); ok && mu.Map == mk {
				c, ok := mu.Key.(*ssa.Const)
				if !ok || c.Value == nil || c.Value.Kind() != constant.Int {
					return nil, false
				}
				keys = append(keys, sIntStr(c.Value.ExactString()))
			}
		}
	}
	// every use of the fresh map in init must be one of those updates or the store
	for _, r := range *mk.Referrers() {
		switch r.(type) {
		case *ssa.MapUpdate, *ssa.Store, *ssa.DebugRef:
		default:
			return nil, false
		}
	}
	a.t.assumed["package-level map literal "+g.Pkg.Pkg.Path()+"."+g.Name()+": key set read from the package initialiser; no other store or update in the package (checked syntactically)"] = true
	return keys, true
}

func sIntStr(s string) string {
	if strings.HasPrefix(s, "-") {
		return "(- " + s[1:] + ")"
	}
	return s
}

// mutatesUnsyncReceiver: methods (by SSA name) of standard-library types without internal synchronisation that change
// their receiver: every method of *math/rand.Rand; the writing / consuming methods of bytes.Buffer and strings.Builder.
func mutatesUnsyncReceiver(name string) bool {
	for _, p := range []string{"math/rand.(*Rand).", "math/rand/v2.(*Rand)."} {
		if strings.HasPrefix(name, p) {
			return true
		}
	}
	for _, p := range []string{"bytes.(*Buffer).", "strings.(*Builder).", "bytes.(*Reader).", "strings.(*Reader).", "bufio.(*Reader).", "bufio.(*Writer)."} {
		if strings.HasPrefix(name, p) {
			m := name[len(p):]
			for _, w := range []string{"Write", "Read", "Reset", "Truncate", "Grow", "Next", "Unread", "Seek", "Discard", "Flush", "Peek"} {
				if strings.HasPrefix(m, w) {
					return true
				}
			}
		}
	}
	return false
}

// contractEvaluable probes, in a throw-away task, whether every clause of con still evaluates against fn as it is now
// (the same set-up as a call site: fresh arguments, preconditions assumed, postconditions applied).
func (e *Eng) contractEvaluable(con *FuncContract, fn *ssa.Function) (ok bool) {
	if e.evaluable == nil {
		e.evaluable = map[*FuncContract]bool{}
	}
	if v, done := e.evaluable[con]; done {
		return v
	}
	e.evaluable[con] = true // a contract that reaches itself through the probe is judged by the outer probe
	defer func() {
		if r := recover(); r != nil {
			ok = true // the probe itself broke: change nothing
		}
		e.evaluable[con] = ok
		if !ok && os.Getenv("FSV_DEBUG") != "" {
			fmt.Fprintln(os.Stderr, "contract not evaluable:", con.Full)
		}
	}()
	t := newTask(e, "probe "+con.Full)
	t.curFn = con.Full
	st0 := t.newEpochState(tTrue)
	t.regArray("$now", "Int")
	t.regArray("$tick", "Int")
	t.callsArr(st0)
	var args []Val
	for _, p := range fn.Params {
		args = append(args, t.freshValue(tTrue, "in:"+p.Name(), p.Type()))
	}
	a := &Activation{t: t, fn: fn, env: map[ssa.Value]Val{}, entry: st0, params: map[string]Val{}, con: con, lets: map[string]Val{}, root: true, arith: map[string]int{}}
	for i, p := range fn.Params {
		a.params[p.Name()] = args[i]
		a.env[p] = args[i]
		a.wfRef(st0, args[i])
	}
	a.applyContract(con, fn, args, nil, st0, token.NoPos, fn.Signature)
	for _, m := range t.errs {
		if strings.Contains(m, "unknown identifier") || strings.Contains(m, "value without type") || strings.Contains(m, "no field") {
			return false
		}
	}
	return true
}
