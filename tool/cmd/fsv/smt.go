package main

// SMT term construction helpers and the solver portfolio.

import (
	"sync/atomic"
	"bytes"
	"context"
	"fmt"
	"os"
	"os/exec"
	"path/filepath"
	"strings"
	"sync"
	"time"
)

// ---- term helpers (terms are plain SMT-LIB strings with light simplification) ----

const (
	tTrue  = "true"
	tFalse = "false"
)

func sAnd(xs ...string) string {
	var out []string
	for _, x := range xs {
		if x == tTrue || x == "" {
			continue
		}
		if x == tFalse {
			return tFalse
		}
		out = append(out, x)
	}
	switch len(out) {
	case 0:
		return tTrue
	case 1:
		return out[0]
	}
	return "(and " + strings.Join(out, " ") + ")"
}

func sOr(xs ...string) string {
	var out []string
	for _, x := range xs {
		if x == tFalse || x == "" {
			continue
		}
		if x == tTrue {
			return tTrue
		}
		out = append(out, x)
	}
	switch len(out) {
	case 0:
		return tFalse
	case 1:
		return out[0]
	}
	return "(or " + strings.Join(out, " ") + ")"
}

func sNot(x string) string {
	switch x {
	case tTrue:
		return tFalse
	case tFalse:
		return tTrue
	}
	if strings.HasPrefix(x, "(not ") && balancedPrefix(x) {
		return x[5 : len(x)-1]
	}
	return "(not " + x + ")"
}

// balancedPrefix reports whether x is a single parenthesised term "(...)" whose
// first paren closes at the very end.
func balancedPrefix(x string) bool {
	d := 0
	for i, c := range x {
		switch c {
		case '(':
			d++
		case ')':
			d--
			if d == 0 && i != len(x)-1 {
				return false
			}
		}
	}
	return d == 0
}

func sImp(a, b string) string {
	if a == tTrue {
		return b
	}
	if a == tFalse || b == tTrue {
		return tTrue
	}
	if b == tFalse {
		return sNot(a)
	}
	return "(=> " + a + " " + b + ")"
}

func sIte(c, a, b string) string {
	if c == tTrue {
		return a
	}
	if c == tFalse {
		return b
	}
	if a == b {
		return a
	}
	return "(ite " + c + " " + a + " " + b + ")"
}

func sEq(a, b string) string {
	if a == b {
		return tTrue
	}
	return "(= " + a + " " + b + ")"
}

func sApp(f string, args ...string) string {
	if len(args) == 0 {
		return f
	}
	return "(" + f + " " + strings.Join(args, " ") + ")"
}

func sInt(n int64) string {
	if n < 0 {
		if n == -9223372036854775808 {
			return "(- 9223372036854775808)"
		}
		return fmt.Sprintf("(- %d)", -n)
	}
	return fmt.Sprintf("%d", n)
}

func sBigInt(s string) string { // s is a decimal string possibly with leading '-'
	if strings.HasPrefix(s, "-") {
		return "(- " + s[1:] + ")"
	}
	return s
}

// ---- solver portfolio ----

type SolverResult struct {
	Status string // unsat | sat | unknown | timeout | error
	Solver string
	Millis int64
	Output string // raw output of the deciding solver (or concatenation when undecided)
	Model  map[string]string
}

type solverSpec struct {
	name string
	argv func(file string, timeoutS int) []string
}

var solverSpecs = []solverSpec{
	{"z3-new", func(f string, t int) []string { return []string{"z3-new", fmt.Sprintf("-T:%d", t), f} }},
	{"z3", func(f string, t int) []string { return []string{"z3", fmt.Sprintf("-T:%d", t), f} }},
	{"cvc5", func(f string, t int) []string {
		return []string{"cvc5", "--produce-models", fmt.Sprintf("--tlimit=%d", t*1000), f}
	}},
}

var solverSem = make(chan struct{}, 14)

// runPortfolio races the installed solvers on the query; the first definite answer wins.
// When all==true every solver must finish and any sat/unsat disagreement is an error.
var queryCounter int64

func runPortfolio(dir, name, query string, getvals []string, timeoutS int, all bool) SolverResult {
	os.MkdirAll(dir, 0o755)
	// one file per query: obligations of an inlined callee carry the same name under every function that inlines it,
	// and the queries run concurrently
	base := filepath.Join(dir, fmt.Sprintf("%05d_%s", atomic.AddInt64(&queryCounter, 1), sanitize(name)))
	// cvc5 wants set-logic first; z3 is happier without.
	z3q := "(set-option :produce-models true)\n" + query
	cvq := "(set-logic ALL)\n" + query
	tail := "(check-sat)\n"
	if len(getvals) > 0 {
		tail += "(get-value (" + strings.Join(getvals, " ") + "))\n"
	}
	z3q += tail
	cvq += tail
	os.WriteFile(base+".smt2", []byte(z3q), 0o644)
	os.WriteFile(base+".cvc5.smt2", []byte(cvq), 0o644)

	ctx, cancel := context.WithCancel(context.Background())
	defer cancel()
	type r struct {
		SolverResult
	}
	ch := make(chan r, len(solverSpecs))
	var wg sync.WaitGroup
	for _, sp := range solverSpecs {
		sp := sp
		if strings.Contains(query, "(lambda ") && sp.name == "cvc5" {
			continue
		}
		wg.Add(1)
		go func() {
			defer wg.Done()
			solverSem <- struct{}{}
			defer func() { <-solverSem }()
			if ctx.Err() != nil {
				ch <- r{SolverResult{Status: "cancelled", Solver: sp.name}}
				return
			}
			file := base + ".smt2"
			if sp.name == "cvc5" {
				file = base + ".cvc5.smt2"
			}
			argv := sp.argv(file, timeoutS)
			t0 := time.Now()
			cctx, ccancel := context.WithTimeout(ctx, time.Duration(timeoutS+2)*time.Second)
			defer ccancel()
			cmd := exec.CommandContext(cctx, argv[0], argv[1:]...)
			var out bytes.Buffer
			cmd.Stdout = &out
			cmd.Stderr = &out
			cmd.Run()
			ms := time.Since(t0).Milliseconds()
			o := out.String()
			st := "unknown"
			first := firstStatusLine(o)
			switch first {
			case "unsat":
				st = "unsat"
			case "sat":
				st = "sat"
			case "timeout":
				st = "timeout"
			case "unknown":
				st = "unknown"
			default:
				if ctx.Err() != nil {
					st = "cancelled"
				} else if cctx.Err() != nil {
					st = "timeout"
				} else {
					st = "error"
				}
			}
			ch <- r{SolverResult{Status: st, Solver: sp.name, Millis: ms, Output: o}}
		}()
	}
	go func() { wg.Wait(); close(ch) }()
	var results []SolverResult
	var decided *SolverResult
	for x := range ch {
		res := x.SolverResult
		results = append(results, res)
		if res.Status == "unsat" || res.Status == "sat" {
			if decided == nil {
				rr := res
				decided = &rr
				if !all {
					cancel()
				}
			} else if decided.Status != res.Status {
				return SolverResult{Status: "error", Solver: "portfolio", Output: fmt.Sprintf("solver disagreement: %s=%s vs %s=%s", decided.Solver, decided.Status, res.Solver, res.Status)}
			}
		}
	}
	if decided != nil {
		if decided.Status == "sat" {
			decided.Model = map[string]string{}
			vals := parseGetValueList(decided.Output)
			for i, v := range vals {
				if i < len(getvals) {
					decided.Model[getvals[i]] = v
				}
			}
		}
		return *decided
	}
	var sb strings.Builder
	st := "unknown"
	nTimeout := 0
	for _, x := range results {
		fmt.Fprintf(&sb, "[%s: %s %dms] %s\n", x.Solver, x.Status, x.Millis, truncate(x.Output, 400))
		if x.Status == "timeout" {
			nTimeout++
		}
	}
	if nTimeout == len(results) && nTimeout > 0 {
		st = "timeout"
	}
	return SolverResult{Status: st, Solver: "none", Output: sb.String()}
}

func firstStatusLine(o string) string {
	for _, l := range strings.Split(o, "\n") {
		l = strings.TrimSpace(l)
		switch l {
		case "sat", "unsat", "unknown", "timeout":
			return l
		}
		if strings.HasPrefix(l, "(error") {
			// keep scanning: z3 4.8 prints errors for get-value after unsat
			continue
		}
	}
	return ""
}

func truncate(s string, n int) string {
	if len(s) > n {
		return s[:n] + "..."
	}
	return s
}

func sanitize(s string) string {
	var b strings.Builder
	for _, c := range s {
		switch {
		case c >= 'a' && c <= 'z', c >= 'A' && c <= 'Z', c >= '0' && c <= '9', c == '.', c == '_', c == '-':
			b.WriteRune(c)
		default:
			b.WriteByte('_')
		}
	}
	r := b.String()
	if len(r) > 150 {
		r = r[:150]
	}
	return r
}

// parseGetValueList returns the values of a get-value answer in order.
func parseGetValueList(o string) []string {
	var out []string
	i := strings.Index(o, "((")
	if i < 0 {
		return out
	}
	s := o[i:]
	depth := 0
	start := -1
	for j := 0; j < len(s); j++ {
		switch s[j] {
		case '|':
			k := strings.Index(s[j+1:], "|")
			if k >= 0 {
				j += k + 1
			}
		case '(':
			depth++
			if depth == 2 {
				start = j
			}
		case ')':
			if depth == 2 && start >= 0 {
				pair := strings.TrimSpace(s[start+1 : j])
				k := splitFirstSexp(pair)
				if k > 0 {
					out = append(out, strings.TrimSpace(pair[k:]))
				} else {
					out = append(out, "")
				}
				start = -1
			}
			depth--
			if depth == 0 {
				return out
			}
		}
	}
	return out
}

// parseGetValue parses "((x 1) (y (- 2)) ...)" into a map.
func parseGetValue(o string) map[string]string {
	m := map[string]string{}
	i := strings.Index(o, "((")
	if i < 0 {
		return m
	}
	s := o[i:]
	// tokenise into s-expressions at depth 1
	depth := 0
	start := -1
	for j := 0; j < len(s); j++ {
		switch s[j] {
		case '(':
			depth++
			if depth == 2 {
				start = j
			}
		case ')':
			if depth == 2 && start >= 0 {
				pair := s[start+1 : j]
				pair = strings.TrimSpace(pair)
				k := splitFirstSexp(pair)
				if k > 0 {
					m[strings.TrimSpace(pair[:k])] = strings.TrimSpace(pair[k:])
				}
				start = -1
			}
			depth--
			if depth == 0 {
				return m
			}
		}
	}
	return m
}

// splitFirstSexp returns the index just after the first s-expression in s.
func splitFirstSexp(s string) int {
	if len(s) == 0 {
		return 0
	}
	if s[0] == '|' {
		k := strings.Index(s[1:], "|")
		if k < 0 {
			return 0
		}
		return k + 2
	}
	if s[0] != '(' {
		k := strings.IndexAny(s, " \t\n")
		if k < 0 {
			return len(s)
		}
		return k
	}
	d := 0
	for i := 0; i < len(s); i++ {
		switch s[i] {
		case '(':
			d++
		case ')':
			d--
			if d == 0 {
				return i + 1
			}
		}
	}
	return 0
}
