package main

import (
	"sync/atomic"
	"regexp"
	"os/exec"
	"context"
	"bytes"
	"encoding/json"
	"flag"
	"fmt"
	"os"
	"path/filepath"
	"sort"
	"strconv"
	"strings"
	"sync"
	"time"

	"golang.org/x/tools/go/ssa"
)

var verifDir = "/verif"

func main() {
	if len(os.Args) < 2 {
		fmt.Fprintln(os.Stderr, "usage: fsv check <Cxx> [--tier quick|thorough] | fsv list | fsv vc <func> | fsv selftest")
		os.Exit(2)
	}
	if d := os.Getenv("VERIF_DIR"); d != "" {
		verifDir = d
	}
	repo := os.Getenv("VERIF_REPO")
	if repo == "" {
		repo = "/repo"
	}
	switch os.Args[1] {
	case "check":
		fs := flag.NewFlagSet("check", flag.ExitOnError)
		tier := fs.String("tier", "", "quick|thorough")
		noReplay := fs.Bool("no-replay", false, "do not replay counter-models")
		keep := fs.Bool("keep", false, "keep SMT files")
		only := fs.String("only", "", "only obligations whose name contains this")
		var ids []string
		rest := os.Args[2:]
		for len(rest) > 0 && !strings.HasPrefix(rest[0], "-") {
			ids = append(ids, rest[0])
			rest = rest[1:]
		}
		fs.Parse(rest)
		if *tier == "" {
			*tier = os.Getenv("VERIF_TIER")
		}
		if *tier == "" {
			*tier = "quick"
		}
		if len(ids) == 0 {
			fmt.Fprintln(os.Stderr, "check: property id required")
			os.Exit(2)
		}
		code := 0
		eng, err := loadEngine(repo)
		if err != nil {
			fmt.Fprintf(os.Stderr, "fsv: cannot load %s: %v\n", repo, err)
			// a tree that does not build/typecheck cannot be verified: undecided, not a violation
			for _, id := range ids {
				fmt.Printf("UNDECIDED property=%s reason=load-error\n", id)
			}
			os.Exit(2)
		}
		for _, id := range ids {
			c := runCheck(eng, id, *tier, !*noReplay, *keep, *only)
			if c > code {
				code = c
			}
		}
		os.Exit(code)
	case "list":
		eng, err := loadEngine(repo)
		if err != nil {
			fmt.Fprintln(os.Stderr, err)
			os.Exit(2)
		}
		var keys []string
		for k := range eng.funcs {
			keys = append(keys, k)
		}
		sort.Strings(keys)
		for _, k := range keys {
			mark := " "
			if len(eng.con.Funcs[k]) > 0 {
				mark = "C"
			}
			fmt.Printf("%s %s\n", mark, k)
		}
	case "ssa":
		eng, err := loadEngine(repo)
		if err != nil {
			fmt.Fprintln(os.Stderr, err)
			os.Exit(2)
		}
		for k, fn := range eng.funcs {
			if strings.Contains(k, os.Args[2]) {
				fn.WriteTo(os.Stdout)
			}
		}
	default:
		fmt.Fprintln(os.Stderr, "unknown command", os.Args[1])
		os.Exit(2)
	}
}

type funcTask struct {
	fn  *ssa.Function
	con *FuncContract
}

// contractsFor returns the function contracts (and lemmas) serving property id.
func contractsFor(eng *Eng, id string) ([]funcTask, []*Lemma, []string) {
	var out []funcTask
	var problems []string
	var keys []string
	for k := range eng.con.Funcs {
		keys = append(keys, k)
	}
	sort.Strings(keys)
	for _, k := range keys {
		for _, con := range eng.con.Funcs[k] {
			if con.Trusted || con.hasClause("summary") {
				continue
			}
			serves := id == "C14" // ownership, locking and no-panic obligations of every function under contract
			for _, c := range con.Clauses {
				for _, p := range propsOfLabel(c.Label) {
					if p == id {
						serves = true
					}
				}
				if c.Kind == "oncall" || c.Kind == "beforecall" || c.Kind == "onwrite" || c.Kind == "atexit" {
					// "hook: assert [labels] expr": the assertion's labels count like an ensures label
					if i := strings.Index(c.Expr, "assert ["); i >= 0 {
						if j := strings.Index(c.Expr[i:], "]"); j > 0 {
							for _, p := range propsOfLabel(c.Expr[i+len("assert [") : i+j]) {
								if p == id {
									serves = true
								}
							}
						}
					}
				}
				if c.Kind == "props" {
					for _, p := range splitList(c.Expr) {
						if p == id {
							serves = true
						}
					}
				}
			}
			if !serves {
				continue
			}
			fn := eng.funcs[k]
			if fn == nil {
				problems = append(problems, fmt.Sprintf("contract %s (%s): function not found in the current tree", k, con.Src))
				continue
			}
			out = append(out, funcTask{fn, con})
		}
	}
	var lemmas []*Lemma
	for _, l := range eng.con.Lemmas {
		for _, p := range propsOfLabel(l.Label) {
			if p == id {
				lemmas = append(lemmas, l)
			}
		}
	}
	return out, lemmas, problems
}

type Evidence struct {
	PropertyID  string                 `json:"property_id"`
	Tier        string                 `json:"tier"`
	Seed        int                    `json:"seed"`
	Level       string                 `json:"level"`
	Coverage    map[string]interface{} `json:"coverage"`
	Assumptions []string               `json:"assumptions"`
	WallS       float64                `json:"wall_s"`
	Violations  int                    `json:"violations"`
}

func runCheck(eng *Eng, id, tier string, replay, keep bool, only string) int {
	t0 := time.Now()
	seed, _ := strconv.Atoi(os.Getenv("VERIF_SEED"))
	tasks, lemmas, problems := contractsFor(eng, id)
	workDir, _ := os.MkdirTemp("", "fsv-"+id+"-")
	if !keep {
		defer os.RemoveAll(workDir)
	} else {
		fmt.Fprintln(os.Stderr, "SMT files kept in", workDir)
	}
	timeout := 25
	if tier == "thorough" {
		timeout = 120
	}
	var allObls []*Obligation
	var covers []*Obligation
	var taskList []*Task
	var undecided []string
	undecided = append(undecided, problems...)
	assumed := map[string]bool{}
	var funcsUnder []string
	var requiresListed []string
	contractsUsed := map[string]bool{}
	inlined := map[string]bool{}
	for _, ft := range tasks {
		gBV = false
		t := newTask(eng, fullName(ft.fn)+caseSuffix(ft.con))
		func() {
			defer func() {
				if r := recover(); r != nil {
					t.errorf("internal error while generating VCs for %s: %v", t.name, r)
					if os.Getenv("FSV_DEBUG") != "" {
						panic(r)
					}
				}
			}()
			t.verifyFunc(ft.fn, ft.con)
		}()
		gBV = false
		taskList = append(taskList, t)
		funcsUnder = append(funcsUnder, t.name)
		for _, e := range t.errs {
			undecided = append(undecided, t.name+": "+e)
		}
		for k := range t.assumed {
			assumed[k] = true
		}
		for k := range t.contractsUsed {
			contractsUsed[k] = true
		}
		for k := range t.inlined {
			inlined[k] = true
		}
		for _, r := range t.requiresListed {
			requiresListed = append(requiresListed, shortName(t.name)+": "+r)
		}
		allObls = append(allObls, t.obls...)
		covers = append(covers, t.covers...)
	}
	// interface-level contracts used by this check: each must follow from the verified contract of its implementation
	if id != "C14" {
		for _, mp := range eng.mirrorPairs(contractsUsed) {
			gBV = false
			t := newTask(eng, mp.iface.Full+" mirrors "+shortName(mp.implCon.Full))
			func() {
				defer func() {
					if r := recover(); r != nil {
						t.errorf("internal error while generating mirror VCs for %s: %v", t.name, r)
					}
				}()
				t.verifyMirror(mp)
			}()
			taskList = append(taskList, t)
			for _, e := range t.errs {
				undecided = append(undecided, t.name+": "+e)
			}
			for k := range t.assumed {
				assumed[k] = true
			}
			// only the mirror obligations themselves (the call-site preconditions are assumed just before)
			for _, o := range t.obls {
				if o.Kind == "mirror" {
					allObls = append(allObls, o)
				}
			}
		}
	}
	for _, l := range lemmas {
		t := newTask(eng, "lemma:"+l.Label)
		t.proveLemma(l)
		taskList = append(taskList, t)
		for _, e := range t.errs {
			undecided = append(undecided, t.name+": "+e)
		}
		allObls = append(allObls, t.obls...)
	}
	if id == "C14" {
		var f []*Obligation
		for _, o := range allObls {
			switch o.Kind {
			case "guarded", "lock", "frozen", "nil", "bounds", "div0", "typeassert", "nilcall", "dyntype", "closeclosed", "monitor", "chan", "confine":
				f = append(f, o)
			default:
				for _, pr := range propsOfLabel(o.Label) {
					if pr == "C14" {
						f = append(f, o)
						break
					}
				}
			}
		}
		allObls = f
	}
	if only != "" {
		var f []*Obligation
		for _, o := range allObls {
			if strings.Contains(o.Name, only) {
				f = append(f, o)
			}
		}
		allObls = f
	}
	kf := loadKnownFindings()
	loadPropNotes()
	// discharge
	var wg sync.WaitGroup
	sem := make(chan struct{}, 6)
	for _, o := range allObls {
		o := o
		if o.Goal == tTrue {
			o.Result = &SolverResult{Status: "unsat", Solver: "trivial"}
			continue
		}
		wg.Add(1)
		go func() {
			defer wg.Done()
			sem <- struct{}{}
			defer func() { <-sem }()
			extra := kf.carveOut(id, o)
			q := o.task.query(o, extra)
			r := runPortfolio(workDir, o.Name, q, o.task.modelSyms, timeout, tier == "thorough" && os.Getenv("FSV_ALL_SOLVERS") != "")
			o.Result = &r
		}()
	}
	for _, c := range covers {
		c := c
		wg.Add(1)
		go func() {
			defer wg.Done()
			sem <- struct{}{}
			defer func() { <-sem }()
			q := c.task.query(c, nil)
			// a cover only has to avoid being refuted: a short budget is enough (unknown counts as reachable)
			r := runPortfolio(workDir, c.Name, q, nil, 4, false)
			c.Result = &r
		}()
	}
	// thorough tier: per-obligation vacuity. Every obligation is "under path condition pc the goal holds"; if the
	// assumptions collected up to that point contradict pc, the obligation was discharged for free. One cover per
	// distinct (function, prefix of assumptions, pc).
	var pcCovers []*Obligation
	if tier == "thorough" {
		seen := map[string]bool{}
		for _, o := range allObls {
			if o.task == nil || o.Pc == tTrue || o.Goal == tTrue || o.Kind == "panic" {
				continue // (a panic obligation *is* the claim that its path is unreachable)
			}
			key := fmt.Sprintf("%p|%d|%s", o.task, o.NAssert, o.Pc)
			if seen[key] {
				continue
			}
			seen[key] = true
			c := &Obligation{Name: o.Name + "#reach", Kind: "cover", Fn: o.Fn, Pc: o.Pc, Goal: tFalse, NAssert: o.NAssert, task: o.task, Src: o.Src}
			pcCovers = append(pcCovers, c)
			wg.Add(1)
			go func() {
				defer wg.Done()
				sem <- struct{}{}
				defer func() { <-sem }()
				q := c.task.query(c, nil)
				r := runPortfolio(workDir, c.Name, q, nil, 4, false)
				c.Result = &r
			}()
		}
	}
	// thorough tier: a contract application must not make its own path unreachable (contradictory postconditions would
	// turn the rest of the caller's path into a vacuous proof, and a later merge would hide it from the sweep above)
	var callCovers [][2]*Obligation
	if tier == "thorough" {
		for _, t := range taskList {
			for _, cc := range t.callCovers {
				cc := cc
				callCovers = append(callCovers, cc)
				for _, c := range cc {
					c := c
					wg.Add(1)
					go func() {
						defer wg.Done()
						sem <- struct{}{}
						defer func() { <-sem }()
						q := c.task.query(c, nil)
						r := runPortfolio(workDir, c.Name, q, nil, 4, false)
						c.Result = &r
					}()
				}
			}
		}
	}
	wg.Wait()
	// second chance for obligations nobody decided (solver incompleteness / a loaded machine): longer budget
	for _, o := range allObls {
		o := o
		if o.Result.Status == "unsat" || o.Result.Status == "sat" {
			continue
		}
		wg.Add(1)
		go func() {
			defer wg.Done()
			sem <- struct{}{}
			defer func() { <-sem }()
			extra := kf.carveOut(id, o)
			q := o.task.query(o, extra)
			r := runPortfolio(workDir, o.Name+".retry", q, o.task.modelSyms, timeout*5, false)
			if r.Status == "unsat" || r.Status == "sat" {
				o.Result = &r
			}
		}()
	}
	wg.Wait()

	// dependency closure: the proof of this property's obligations assumes postconditions of contracted callees. Those
	// that a proof actually uses (unsat core) belong to the property as well, with the loop, call and frame obligations of
	// the callee they are proved in -- transitively.
	var closureFuncs []string
	closureObls := 0
	if id != "C14" && os.Getenv("FSV_NO_CLOSURE") == "" {
		own := map[string]bool{}
		for _, ft := range tasks {
			own[ft.con.Full+caseSuffix(ft.con)] = true
		}
		relied := map[*FuncContract]map[string]bool{}
		var rmu sync.Mutex
		coresOf := func(obls []*Obligation) {
			var cwg sync.WaitGroup
			for _, o := range obls {
				o := o
				if o.Result == nil || o.Result.Status != "unsat" || o.task == nil || len(o.task.assertTag) == 0 || o.Goal == tTrue {
					continue
				}
				inScope := false
				for i := range o.task.assertTag {
					if i < o.NAssert {
						inScope = true
						break
					}
				}
				if !inScope {
					continue
				}
				cwg.Add(1)
				go func() {
					defer cwg.Done()
					sem <- struct{}{}
					defer func() { <-sem }()
					idx, ok := unsatCore(workDir, o, kf.carveOut(id, o))
					rmu.Lock()
					defer rmu.Unlock()
					for i, tg := range o.task.assertTag {
						if i >= o.NAssert || (ok && !idx[i]) {
							continue
						}
						if relied[tg.con] == nil {
							relied[tg.con] = map[string]bool{}
						}
						relied[tg.con][tg.src] = true
					}
				}()
			}
			cwg.Wait()
		}
		// a contract that pins a call down with an 'oncall' hook ("delegates exactly once to f") says nothing about what f
		// does: the property then rests on the whole contract of f
		delegated := map[*Task]bool{}
		delegatesOf := func(t *Task) {
			if t.rootCon == nil || delegated[t] {
				return
			}
			delegated[t] = true
			for _, c := range t.rootCon.Clauses {
				if c.Kind != "oncall" {
					continue
				}
				for full, cons := range eng.con.Funcs {
					if !strings.HasSuffix(full, c.Name) {
						continue
					}
					for _, con := range cons {
						if con.Trusted || !t.contractsUsed[con.Full+caseSuffix(con)] {
							continue
						}
						for _, cc := range con.Clauses {
							if cc.Kind == "ensures" {
								if relied[con] == nil {
									relied[con] = map[string]bool{}
								}
								relied[con][cc.Src] = true
							}
						}
					}
				}
			}
		}
		for _, t := range taskList {
			delegatesOf(t)
		}
		coresOf(allObls)
		ctasks := map[*FuncContract]*Task{}
		included := map[*Obligation]bool{}
		for round := 0; round < 12; round++ {
			var fresh []*Obligation
			var cons []*FuncContract
			for con := range relied {
				cons = append(cons, con)
			}
			sort.Slice(cons, func(i, j int) bool { return cons[i].Full+caseSuffix(cons[i]) < cons[j].Full+caseSuffix(cons[j]) })
			for _, con := range cons {
				if own[con.Full+caseSuffix(con)] || con.Trusted || con.hasClause("summary") {
					continue
				}
				ct := ctasks[con]
				if ct == nil {
					fn := eng.funcs[con.Full]
					if fn == nil {
						continue
					}
					gBV = false
					ct = newTask(eng, con.Full+caseSuffix(con))
					func() {
						defer func() {
							if r := recover(); r != nil {
								ct.errorf("internal error while generating VCs for %s: %v", ct.name, r)
							}
						}()
						ct.verifyFunc(fn, con)
					}()
					gBV = false
					ctasks[con] = ct
					taskList = append(taskList, ct)
					delegatesOf(ct)
					closureFuncs = append(closureFuncs, ct.name)
					for _, e := range ct.errs {
						undecided = append(undecided, ct.name+": "+e)
					}
					for k := range ct.assumed {
						assumed[k] = true
					}
					for k := range ct.contractsUsed {
						contractsUsed[k] = true
					}
					for _, c := range ct.covers {
						c := c
						covers = append(covers, c)
						wg.Add(1)
						go func() {
							defer wg.Done()
							sem <- struct{}{}
							defer func() { <-sem }()
							r := runPortfolio(workDir, c.Name, c.task.query(c, nil), nil, 4, false)
							c.Result = &r
						}()
					}
				}
				for _, o := range ct.obls {
					if included[o] {
						continue
					}
					take := false
					switch o.Kind {
					case "ensures":
						take = relied[con][o.Src]
					case "loopinv", "decreases", "call-requires", "frame", "modecase", "sendinv":
						take = true
					}
					if take && only != "" && !strings.Contains(o.Name, only) {
						take = false
					}
					if take {
						included[o] = true
						fresh = append(fresh, o)
					}
				}
			}
			if len(fresh) == 0 {
				break
			}
			for _, o := range fresh {
				o := o
				if o.Goal == tTrue {
					o.Result = &SolverResult{Status: "unsat", Solver: "trivial"}
					continue
				}
				wg.Add(1)
				go func() {
					defer wg.Done()
					sem <- struct{}{}
					defer func() { <-sem }()
					extra := kf.carveOut(id, o)
					r := runPortfolio(workDir, o.Name, o.task.query(o, extra), o.task.modelSyms, timeout, false)
					if r.Status != "unsat" && r.Status != "sat" {
						if r2 := runPortfolio(workDir, o.Name+".retry", o.task.query(o, extra), o.task.modelSyms, timeout*5, false); r2.Status == "unsat" || r2.Status == "sat" {
							r = r2
						}
					}
					o.Result = &r
				}()
			}
			wg.Wait()
			allObls = append(allObls, fresh...)
			closureObls += len(fresh)
			coresOf(fresh)
		}
		wg.Wait()
		sort.Strings(closureFuncs)
	}

	// verdicts
	discharged := 0
	var failed []*Obligation
	byBackend := map[string]int{}
	var solverMs int64
	for _, o := range allObls {
		if o.Result.Millis > 5000 && os.Getenv("FSV_SLOW") != "" {
			fmt.Fprintf(os.Stderr, "slow: %s %s %dms by %s\n", o.Name, o.Result.Status, o.Result.Millis, o.Result.Solver)
		}
		if o.Result.Status == "unsat" {
			discharged++
			byBackend[o.Result.Solver]++
			solverMs += o.Result.Millis
		} else {
			failed = append(failed, o)
		}
	}
	vacuous := 0
	for _, c := range covers {
		// a cover must be satisfiable (or at least not refutable)
		if c.Result.Status == "unsat" {
			vacuous++
			undecided = append(undecided, "vacuity: "+c.Name+" is unreachable (contradictory requires or assumptions)")
		}
	}
	if len(allObls) == 0 {
		undecided = append(undecided, "no obligations were generated for "+id)
	}
	var unreachableObls []string
	for _, c := range pcCovers {
		if c.Result != nil && c.Result.Status == "unsat" {
			unreachableObls = append(unreachableObls, c.Name+" ("+c.Src+")")
		}
	}
	sort.Strings(unreachableObls)
	var deadCalls []string
	for _, cc := range callCovers {
		if cc[0].Result != nil && cc[1].Result != nil && cc[0].Result.Status != "unsat" && cc[1].Result.Status == "unsat" {
			deadCalls = append(deadCalls, cc[1].Name)
			undecided = append(undecided, "vacuity: the postconditions assumed at "+cc[1].Name+" contradict the state at the call: everything after it would be proved for free")
		}
	}
	sort.Strings(deadCalls)

	exit := 0
	violations := 0
	var knownLines []string
	var knownObls []string
	knownSet := map[*Obligation]bool{}
	os.MkdirAll(filepath.Join(verifDir, "replay", "out"), 0o755)
	suppressed := 0
	for _, o := range failed {
		if o.task != nil && len(o.task.errs) > 0 {
			// The contract of this function could not be evaluated against the code as it is now (a local named by an
			// invariant is gone, a loop changed shape, a construct left the subset): every failure in it is a consequence of
			// the missing clause as likely as of the code. That is "needs contract", not a violation: UNDECIDED, exit 2.
			suppressed++
			continue
		}
		if kfe := kf.match(id, o); kfe != nil && kfe.Status == "known" && kfe.Except == "" {
			// whole-obligation known finding: witness replay decides
			if kf.witnessStillFails(eng, kfe) {
				knownLines = append(knownLines, fmt.Sprintf("KNOWN-FINDING: property=%s %s", id, kfe.What))
				knownObls = append(knownObls, o.Name+" ("+o.Result.Status+"; refuted on the real code by "+kfe.Witness+")")
				knownSet[o] = true
				continue
			}
		}
		violations++
		path := writeViolation(eng, id, o, replay)
		suffix := ""
		if !strings.HasSuffix(path.status, "fails-on-real-code") {
			suffix = " no-failing-input-found"
		}
		fmt.Printf("VIOLATION property=%s replay=%s obligation=%s solver=%s(%s)%s\n", id, path.file, o.Name, o.Result.Solver, o.Result.Status, suffix)
		exit = 1
	}
	// known findings with carve-outs: obligation passed under the carve-out; the witness must still fail
	for _, kfe := range kf.entriesFor(id) {
		if kfe.Status != "known" || kfe.Except == "" {
			continue
		}
		present := false
		for _, o := range allObls {
			if o.Name == kfe.Obligation {
				present = true
			}
		}
		if !present {
			continue
		}
		if kf.witnessStillFails(eng, kfe) {
			knownLines = append(knownLines, fmt.Sprintf("KNOWN-FINDING: property=%s %s", id, kfe.What))
		}
	}
	for _, l := range knownLines {
		fmt.Println(l)
	}
	if suppressed > 0 {
		undecided = append(undecided, fmt.Sprintf("%d obligation(s) failed inside functions whose contract no longer evaluates against the code (listed above); not reported as violations", suppressed))
	}
	// bounded stand-ins (never counted as proved): real-code tests with a stated bound, for clauses no contract decides
	var boundedOut []interface{}
	if only == "" {
		for _, bc := range loadBoundedChecks(id) {
			res := runOverlayTest(eng.repo, filepath.Join(verifDir, bc.File), bc.Pkg, bc.Run, false)
			verdict := "passed"
			if res.failed {
				verdict = "failed"
				violations++
				exit = 1
				file := filepath.Join(verifDir, "replay", "out", sanitize(id+"__bounded__"+bc.Name)+".txt")
				os.WriteFile(file, []byte("property:   "+id+"\nbounded check: "+bc.Name+"\nbound:      "+bc.Bound+"\n\nreplay on the real code:\n"+res.log+"\n\nstatus: fails-on-real-code\n"), 0o644)
				fmt.Printf("VIOLATION property=%s replay=%s obligation=bounded[%s]\n", id, file, bc.Name)
			} else if !res.built {
				verdict = "did not run"
				undecided = append(undecided, "bounded check "+bc.Name+" did not run: "+truncate(res.log, 300))
			}
			boundedOut = append(boundedOut, map[string]interface{}{"name": bc.Name, "clause": bc.Clause, "bound": bc.Bound, "verdict": verdict, "counted_as_proved": false, "test": bc.File})
		}
	}
	if len(undecided) > 0 {
		for _, u := range undecided {
			if exit == 0 {
				fmt.Printf("UNDECIDED property=%s reason=%s\n", id, strings.ReplaceAll(u, "\n", " "))
			} else {
				fmt.Fprintf(os.Stderr, "undecided: %s\n", strings.ReplaceAll(u, "\n", " "))
			}
		}
		if exit == 0 {
			exit = 2
		}
	}

	// evidence
	var samples []interface{}
	for i, o := range allObls {
		if i%maxInt(1, len(allObls)/12) == 0 && len(samples) < 14 {
			samples = append(samples, map[string]interface{}{"obligation": o.Name, "kind": o.Kind, "clause": o.Expr, "src": o.Src, "status": o.Result.Status, "solver": o.Result.Solver, "ms": o.Result.Millis})
		}
	}
	var asm []string
	for k := range assumed {
		asm = append(asm, k)
	}
	sort.Strings(asm)
	var used []string
	for k := range contractsUsed {
		used = append(used, k)
	}
	sort.Strings(used)
	var inl []string
	for k := range inlined {
		inl = append(inl, k)
	}
	sort.Strings(inl)
	var failedNames []string
	for _, o := range failed {
		if !knownSet[o] {
			failedNames = append(failedNames, o.Name+" ("+o.Result.Status+")")
		}
	}
	trusted := []string{
		"fsv itself: go/ssa lowering, the symbolic execution, the SMT encoding, the monitor/rely argument (DESIGN.md section 4)",
		"SMT solvers z3 4.8.12, z3 5.1.0 (z3-new), cvc5 1.0 (first definite answer of the portfolio)",
		"Go runtime semantics of mutexes, channels, atomics, timers, context (DESIGN.md section 4.2)",
		"callbacks (user functions, predicates, listeners) terminate, do not panic and do not re-enter the policy",
		"panics are outside every property (documented library behaviour)",
	}
	ev := Evidence{PropertyID: id, Tier: tier, Seed: seed, Level: "proof", WallS: time.Since(t0).Seconds(), Violations: violations,
		Assumptions: append(asm, propNotes[id]...),
		Coverage: map[string]interface{}{
			// obligations listed as known findings (refuted, witness replayed on the real code) are reported apart:
			// they are neither claimed nor counted as proved
			"obligations":               len(allObls) - len(knownObls),
			"discharged":                discharged,
			"known_finding_obligations": knownObls,
			"checker_cmd":              "bin/fsv check " + id + " --tier " + tier,
			"trusted_base":             trusted,
			"samples":                  samples,
			"functions_under_contract": funcsUnder,
			"callee_contracts_applied": used,
			"dependency_closure":       map[string]interface{}{"functions": closureFuncs, "obligations": closureObls, "how": "callee postconditions that occur in an unsat core of one of this property's obligations (z3 5.1.0; all of them when no core is returned), with the loop, call-site and frame obligations of the function they are proved in, transitively"},
			"inlined_helpers":          inl,
			"by_backend":               byBackend,
			"solver_ms_total":          solverMs,
			"requires_listed":          requiresListed,
			"lemmas":                   len(lemmas),
			"vacuity":                  map[string]interface{}{"covers_checked": len(covers), "unreachable": vacuous, "obligation_paths_checked": len(pcCovers), "obligations_on_unreachable_paths": unreachableObls, "contract_applications_checked": len(callCovers), "contract_applications_that_kill_their_path": deadCalls},
			"failed_obligations":       failedNames,
			"undecided":                undecided,
			"known_findings_reported":  knownLines,
			"bounded_checks":           boundedOut,
			"integers":                 "mathematical Int with a no-overflow obligation at every arithmetic site (64-bit vectors where a contract says 'mode bv64')",
			"contract_files":           relFiles(eng.con.Files),
		}}
	data, _ := json.MarshalIndent(ev, "", " ")
	if r := os.Getenv("VERIF_REPO"); r != "" && filepath.Clean(r) != "/repo" && os.Getenv("VERIF_DIR") == "" {
		// a run against a scratch copy of the repository (a seeded change) must not overwrite the evidence of /repo
		fmt.Fprintln(os.Stderr, "fsv: VERIF_REPO points at a scratch copy and VERIF_DIR is not set: evidence file not written")
	} else {
		os.MkdirAll(filepath.Join(verifDir, "evidence"), 0o755)
		os.WriteFile(filepath.Join(verifDir, "evidence", id+".json"), data, 0o644)
	}
	fmt.Printf("%s: %d obligations, %d discharged, %d failed, %d known findings, %d functions, %d lemmas, %.1fs\n", id, len(allObls)-len(knownObls), discharged, len(failed)-len(knownObls), len(knownObls), len(tasks), len(lemmas), time.Since(t0).Seconds())
	return exit
}

func maxInt(a, b int) int {
	if a > b {
		return a
	}
	return b
}

func relFiles(fs []string) []string {
	var out []string
	for _, f := range fs {
		if k := strings.Index(f, "/repo/"); k >= 0 {
			f = f[k+6:]
		}
		out = append(out, f)
	}
	return out
}

var propNotes = map[string][]string{}

// prop_notes.json: per property, what the check leaves undecided and the readings it takes (copied into the evidence).
func loadPropNotes() {
	data, err := os.ReadFile(filepath.Join(verifDir, "prop_notes.json"))
	if err != nil {
		data, err = os.ReadFile("/verif/prop_notes.json")
		if err != nil {
			return
		}
	}
	json.Unmarshal(data, &propNotes)
}

// query renders the SMT-LIB text for one obligation.
func (t *Task) query(o *Obligation, extra []string) string { return t.query0(o, extra, false) }

// query0 with named == true names the assumptions that come from callee contracts (|T<i>|), for unsat cores.
func (t *Task) query0(o *Obligation, extra []string, named bool) string {
	var b strings.Builder
	for _, d := range t.decls {
		b.WriteString(d)
		b.WriteByte('\n')
	}
	n := o.NAssert
	if n > len(t.asserts) {
		n = len(t.asserts)
	}
	for i, a := range t.asserts[:n] {
		if named && t.assertTag[i] != nil {
			fmt.Fprintf(&b, "(assert (! %s :named |T%d|))\n", a, i)
			continue
		}
		b.WriteString("(assert ")
		b.WriteString(a)
		b.WriteString(")\n")
	}
	// definitional assertions appended later (lazy materialisation of merged arrays) are needed as well
	for _, a := range t.asserts[n:] {
		if t.isDefinitional(a) {
			b.WriteString("(assert ")
			b.WriteString(a)
			b.WriteString(")\n")
		}
	}
	// quantified facts about ghost identities (the general injectivity of method identities) only matter when the query
	// has another quantifier to instantiate them with; ground queries keep the per-term facts and stay decidable ("sat")
	quantified := strings.Contains(b.String(), "(forall ") || strings.Contains(b.String(), "(exists ") || strings.Contains(o.Goal, "(forall ") || strings.Contains(o.Goal, "(exists ") || strings.Contains(o.Pc, "(forall ")
	for _, x := range extra {
		if strings.Contains(x, "(forall ") || strings.Contains(x, "(exists ") {
			quantified = true
		}
	}
	for _, x := range t.lateFacts {
		if !quantified && strings.HasPrefix(x, "(forall ") {
			continue
		}
		b.WriteString("(assert " + x + ")\n")
	}
	for _, x := range extra {
		b.WriteString("(assert " + x + ")\n")
	}
	b.WriteString("(assert " + o.Pc + ")\n")
	b.WriteString("(assert " + sNot(o.Goal) + ")\n")
	return b.String()
}

func (t *Task) isDefinitional(a string) bool { return false }

// proveLemma: a closed formula over pure specification functions.
func (t *Task) proveLemma(l *Lemma) {
	t.curFn = "lemma:" + l.Label
	st := t.newEpochState(tTrue)
	env := &ExprEnv{t: t, st: st, old: st, vars: map[string]Val{}, pkg: l.Pkg, src: l.Src, callBase: st}
	// "forall x int, y int :: body" at top level is proved for fresh constants (so that models name them)
	expr := strings.TrimSpace(l.Expr)
	if strings.HasPrefix(expr, "forall ") {
		k := topLevelIndex(expr, "::")
		binders := strings.TrimSpace(expr[len("forall "):k])
		expr = strings.TrimSpace(expr[k+2:])
		var pending []string
		for _, b := range strings.Split(binders, ",") {
			nm, ty := splitWord(strings.TrimSpace(b))
			if ty == "" {
				pending = append(pending, nm)
				continue
			}
			for _, p := range append(pending, nm) {
				tmpl, sort := env.ghostType(ty)
				v := tmpl
				v.S = t.declare("lv:"+p, sort)
				env.vars[p] = v
				t.modelSyms = append(t.modelSyms, v.S)
			}
			pending = nil
		}
	}
	for _, h := range l.Hints {
		// a hint is "use otherLemma(args)": an instance of another machine-checked lemma
		h = strings.TrimSpace(strings.TrimPrefix(strings.TrimSpace(h), "use "))
		if f := t.lemmaInstance(env, Clause{Expr: h, Src: l.Src}); f != "" {
			t.assume(tTrue, f)
		}
	}
	if strings.HasPrefix(strings.TrimSpace(l.By), "induction ") {
		// by induction <var> from <expr>: base case and step (the induction principle is the tool's meta-rule)
		f := strings.Fields(strings.TrimSpace(l.By))
		if len(f) != 4 || f[2] != "from" {
			t.errorf("%s: expected 'by induction <var> from <expr>'", l.Src)
			return
		}
		v := f[1]
		orig, ok := env.vars[v]
		if !ok {
			t.errorf("%s: induction variable %s is not bound by the lemma", l.Src, v)
			return
		}
		base := env.evalSrc(f[3], l.Src)
		env.vars[v] = base
		t.oblige("lemma", "lemma#"+l.Label+".base", l.Label, tTrue, env.evalBool(expr, l.Src), l.Src, l.Expr+"  [base "+v+" = "+f[3]+"]")
		env.vars[v] = orig
		hyp := env.evalBool(expr, l.Src)
		next := orig
		next.S = "(+ " + orig.S + " 1)"
		env.vars[v] = next
		step := env.evalBool(expr, l.Src)
		env.vars[v] = orig
		t.oblige("lemma", "lemma#"+l.Label+".step", l.Label, tTrue, sImp(sAnd("(>= "+orig.S+" "+base.S+")", hyp), step), l.Src, l.Expr+"  [step "+v+" -> "+v+"+1]")
		t.assumed["induction principle over the integers (meta-rule of the tool) for lemma "+l.Label] = true
		return
	}
	goal := env.evalBool(expr, l.Src)
	t.oblige("lemma", "lemma#"+l.Label, l.Label, tTrue, goal, l.Src, l.Expr)
}

// bounded_checks.json (committed): bounded stand-ins per property.
type BoundedCheck struct {
	Property string `json:"property"`
	Name     string `json:"name"`
	Clause   string `json:"clause"`
	Bound    string `json:"bound"`
	File     string `json:"file"`
	Pkg      string `json:"pkg"`
	Run      string `json:"run"`
}

func loadBoundedChecks(id string) []BoundedCheck {
	var all struct {
		Checks []BoundedCheck `json:"checks"`
	}
	data, err := os.ReadFile(filepath.Join(verifDir, "bounded_checks.json"))
	if err != nil {
		return nil
	}
	json.Unmarshal(data, &all)
	var out []BoundedCheck
	for _, c := range all.Checks {
		if c.Property == id {
			out = append(out, c)
		}
	}
	return out
}

// unsatCore re-solves a discharged obligation with the callee-contract assumptions named and returns the indices (into
// task.asserts) of those in the core. ok == false: no core obtained (timeout): the caller takes all of them.
func unsatCore(dir string, o *Obligation, extra []string) (map[int]bool, bool) {
	q := "(set-option :produce-unsat-cores true)\n" + o.task.query0(o, extra, true) + "(check-sat)\n(get-unsat-core)\n"
	base := filepath.Join(dir, fmt.Sprintf("%05d_core_%s", atomic.AddInt64(&queryCounter, 1), sanitize(o.Name)))
	file := base + ".smt2"
	os.WriteFile(file, []byte(q), 0o644)
	ctx, cancel := context.WithTimeout(context.Background(), 14*time.Second)
	defer cancel()
	cmd := exec.CommandContext(ctx, "z3-new", "-T:10", file)
	var out bytes.Buffer
	cmd.Stdout = &out
	cmd.Stderr = &out
	cmd.Run()
	txt := out.String()
	if !strings.HasPrefix(strings.TrimSpace(txt), "unsat") {
		return nil, false
	}
	res := map[int]bool{}
	for _, m := range coreNameRe.FindAllStringSubmatch(txt, -1) {
		n, _ := strconv.Atoi(m[1])
		res[n] = true
	}
	return res, true
}

var coreNameRe = regexp.MustCompile(`\bT(\d+)\b`)
