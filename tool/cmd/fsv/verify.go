package main

import (
	"regexp"
	"fmt"
	"go/ast"
	"go/token"
	"go/types"
	"sort"
	"strings"

	"golang.org/x/tools/go/ssa"
)

type modTarget struct {
	array string // exact array name, or prefix when isPrefix
	ref   string // "" = whole array
	isPrefix bool
	callsOf string // for calls(f): the function id
	recv    string // for calls(x.M): the receiver (a nil receiver is never called)
	methodCalls bool // "methodcalls": the counters of interface-method identities may move (real function values may not)
}

// paramNames returns the names under which arguments are visible to a contract.
func paramNames(fn *ssa.Function, sig *types.Signature, nargs int) []string {
	var names []string
	if fn != nil {
		for _, p := range fn.Params {
			names = append(names, p.Name())
		}
		return names
	}
	// interface-level contract: receiver is "self"
	names = append(names, "self")
	for i := 0; i < sig.Params().Len(); i++ {
		n := sig.Params().At(i).Name()
		if n == "" || n == "_" {
			n = fmt.Sprintf("p%d", i)
		}
		names = append(names, n)
	}
	return names
}

func (t *Task) resolveMods(env *ExprEnv, con *FuncContract) (targets []modTarget, havoc bool, any bool) {
	for _, c := range con.Clauses {
		switch c.Kind {
		case "havoc":
			havoc = true
			any = true
		case "modifies":
			any = true
			for _, item := range splitTop(c.Expr, ',') {
				item = strings.TrimSpace(item)
				if item == "" || item == "nothing" {
					continue
				}
				if item == "methodcalls" {
					targets = append(targets, modTarget{methodCalls: true})
					continue
				}
				if item == "*" {
					havoc = true
					targets = append(targets, modTarget{array: "", isPrefix: true})
					continue
				}
				targets = append(targets, t.resolveMod(env, item, c.Src)...)
			}
		}
	}
	return
}

func (t *Task) resolveMod(env *ExprEnv, item, src string) []modTarget {
	env.src = src
	e, err := parseSpec(item)
	if err != nil {
		t.errorf("%s: cannot parse modifies item %q: %v", src, item, err)
		return nil
	}
	switch e := e.(type) {
	case *ast.CallExpr:
		if id, ok := e.Fun.(*ast.Ident); ok {
			switch id.Name {
			case "calls":
				f := env.eval(e.Args[0])
				mt := modTarget{callsOf: f.S}
				if sel, ok := e.Args[0].(*ast.SelectorExpr); ok {
					saved := len(t.errs)
					if rv := env.eval(sel.X); rv.K == KIface {
						mt.recv = rv.S
					}
					if len(t.errs) > saved {
						t.errs = t.errs[:saved]
					}
				}
				return []modTarget{mt}
			case "elems": // elems(x.f): all elements of slice x.f
				s := env.eval(e.Args[0])
				if s.K != KSlice {
					t.errorf("%s: elems() of non-slice", src)
					return nil
				}
				ST := s.T.Underlying().(*types.Slice)
				var out []modTarget
				for _, lf := range t.leavesOf(ST.Elem()) {
					name := "elem:" + prefixFor(ST.Elem()) + lf.path
					t.regArray(name, "(Array Int (Array Int "+sortOfKind(lf.kind)+"))")
					out = append(out, modTarget{array: name, ref: s.Fields[0].S})
				}
				return out
			case "alloftype": // alloftype(T): every field of every object of type T
				T := env.resolveType(e.Args[0])
				if T == nil {
					t.errorf("%s: unknown type in alloftype", src)
					return nil
				}
				// register every field array of T so that the wholesale havoc reaches them all
				for _, lf := range t.leavesOf(T) {
					t.regArray(prefixFor(T)+lf.path, "(Array Int "+sortOfKind(lf.kind)+")")
				}
				for gk, g := range t.eng.con.Ghost {
					if strings.HasPrefix(gk, typeKey(T)+".") {
						_, srt := env.ghostType(g.GoType)
						t.regArray(g.Pkg+"."+g.Type+".$"+g.Name, "(Array Int "+srt+")")
					}
				}
				return []modTarget{{array: prefixFor(T) + ".", isPrefix: true}, {array: "elem:" + prefixFor(T) + ".", isPrefix: true}}
			case "held":
				m := env.eval(e.Args[0])
				return []modTarget{{array: "$held", ref: m.S}}
			case "canceled":
				m := env.eval(e.Args[0])
				t.regArray("$g:canc", "(Array Int Bool)")
				return []modTarget{{array: "$g:canc", ref: m.S}}
			case "tokens":
				m := env.eval(e.Args[0])
				t.regArray("$tok", "(Array Int Int)")
				t.regArray("$sends", "(Array Int Int)")
				t.regArray("$timerfired", "(Array Int Bool)")
				return []modTarget{{array: "$tok", ref: m.S}, {array: "$sends", ref: m.S}}
			case "closed":
				m := env.eval(e.Args[0])
				return []modTarget{{array: "$chanclosed", ref: m.S}}
			}
		}
	case *ast.StarExpr:
		p := env.eval(e.X)
		T := derefType(p.T)
		if T == nil {
			t.errorf("%s: modifies *x of non-pointer", src)
			return nil
		}
		prefix, ref, _ := locOf(p, T)
		var out []modTarget
		for _, lf := range t.leavesOf(T) {
			name := prefix + lf.path
			t.regArray(name, "(Array Int "+sortOfKind(lf.kind)+")")
			out = append(out, modTarget{array: name, ref: ref})
		}
		return out
	case *ast.SelectorExpr:
		x := env.eval(e.X)
		if x.K != KRef || x.T == nil {
			t.errorf("%s: modifies item %q: base is not a typed reference", src, item)
			return nil
		}
		base := derefType(x.T)
		if g := env.lookupGhost(x, e.Sel.Name); g != nil {
			name := g.Pkg + "." + g.Type + ".$" + g.Name
			_, sort := env.ghostType(g.GoType)
			t.regArray(name, "(Array Int "+sort+")")
			return []modTarget{{array: name, ref: x.S}}
		}
		obj, index, _ := types.LookupFieldOrMethod(x.T, true, env.pkgTypes(), e.Sel.Name)
		if obj == nil {
			obj, index = env.lookupAnyPkg(x.T, e.Sel.Name)
		}
		_ = base
		if obj == nil {
			// ghost through embedding
			if v, ok := env.ghostThroughEmbeddingTarget(x, e.Sel.Name); ok {
				return v
			}
			t.errorf("%s: modifies item %q: no such field", src, item)
			return nil
		}
		cur := x
		for _, fi := range index[:len(index)-1] {
			cur = env.fieldStep(cur, fi)
		}
		if cur.K != KRef {
			t.errorf("%s: modifies item %q: path through a struct value is not supported", src, item)
			return nil
		}
		T := derefType(cur.T)
		f := structOf(T).Field(index[len(index)-1])
		prefix, ref, _ := locOf(cur, T)
		var out []modTarget
		seen := map[string]bool{}
		for _, lf := range t.leavesOf(f.Type()) {
			name := prefix + "." + f.Name() + lf.path
			t.regArray(name, "(Array Int "+sortOfKind(lf.kind)+")")
			out = append(out, modTarget{array: name, ref: ref})
			seen[name] = true
		}
		// ghost views of the same field (e.g. the boolean view of an atomic.Bool)
		for name, srt := range t.arrSort {
			if !seen[name] && (strings.HasPrefix(name, prefix+"."+f.Name()+".") || strings.HasPrefix(name, prefix+"."+f.Name()+"#")) && strings.HasPrefix(srt, "(Array Int") {
				out = append(out, modTarget{array: name, ref: ref})
			}
		}
		return out
	}
	t.errorf("%s: unsupported modifies item %q", src, item)
	return nil
}

func (env *ExprEnv) ghostThroughEmbeddingTarget(x Val, name string) ([]modTarget, bool) {
	base := derefType(x.T)
	s := structOf(base)
	if s == nil {
		return nil, false
	}
	for i := 0; i < s.NumFields(); i++ {
		f := s.Field(i)
		if !f.Embedded() {
			continue
		}
		fb := f.Type()
		if p := derefType(fb); p != nil {
			fb = p
		}
		if g, ok := env.t.eng.con.Ghost[typeKey(fb)+"."+name]; ok {
			sub := env.fieldStep(x, i)
			nm := g.Pkg + "." + g.Type + ".$" + g.Name
			_, sort := env.ghostType(g.GoType)
			env.t.regArray(nm, "(Array Int "+sort+")")
			return []modTarget{{array: nm, ref: sub.S}}, true
		}
	}
	return nil, false
}

// applyContract replaces a call by the callee's contract.
func (a *Activation) applyContract(con *FuncContract, fn *ssa.Function, args []Val, bindings []Val, st *State, pos token.Pos, sig *types.Signature) (*State, []Val) {
	t := a.t
	t.contractsUsed[con.Full+caseSuffix(con)] = true
	if con.hasClause("summary") {
		t.assumed["summary contract (frame and case-independent facts only; the cases are verified separately): "+con.Full] = true
	}
	if con.Trusted {
		t.assumed["assumed contract (trusted, not verified): "+con.Full] = true
	}
	nAssertBefore := len(t.asserts)
	pre := st.clone()
	vars := map[string]Val{}
	names := paramNames(fn, sig, len(args))
	for i, n := range names {
		if i < len(args) {
			vars[n] = args[i]
		}
	}
	if fn != nil {
		for i, fv := range fn.FreeVars {
			if i < len(bindings) {
				// captured variables are cells: the contract names their content (as it does when the closure is verified)
				cell := bindings[i]
				T := derefType(fv.Type())
				if cell.K == KRef && T != nil && kindOfType(T) != KStruct {
					prefix, ref, idx := locOf(cell, T)
					vars[fv.Name()] = t.load(pre, prefix, ref, idx, T)
				} else {
					vars[fv.Name()] = cell
				}
			}
		}
	}
	pkg := con.Pkg
	env := &ExprEnv{t: t, a: nil, st: pre, old: pre, vars: vars, pkg: pkg, callBase: pre}
	// requires
	for i, c := range con.Clauses {
		if c.Kind != "requires" {
			continue
		}
		v := env.evalBool(c.Expr, c.Src)
		a.arith["call:"+con.Full]++
		name := fmt.Sprintf("%s#call[%s.%s:%d]", fullName(a.fn), shortName(con.Full), labelOr(c.Label, i), a.arith["call:"+con.Full])
		o := t.oblige("call-requires", name, c.Label, st.pc, v, posStr(t.eng.fset, pos), c.Expr)
		o.Fn = fullName(a.fn)
		t.assume(st.pc, v)
	}
	for _, x := range args {
		a.escape(st, x)
	}
	// atomic callee: it takes the monitor lock of the named object; what it sees there is whatever other
	// threads left (guarded state havocked, invariant assumed) -- 'old' in its contract refers to that state.
	for _, c := range con.Clauses {
		if c.Kind != "locks" {
			continue
		}
		owner := env.evalSrc(c.Expr, c.Src)
		base := derefType(owner.T)
		for _, m := range t.eng.con.Monitors {
			if base != nil && m.Pkg+"."+m.Type == typeKey(base) {
				mid := a.mutexRefOf(st, m, owner.S)
				t.regArray("$held", "(Array Int Bool)")
				a.arith["lock"]++
				name := fmt.Sprintf("%s#nodeadlock[call:%s:%d]", fullName(a.fn), shortName(con.Full), a.arith["lock"])
				o := t.oblige("lock", name, "C14.no_self_deadlock", st.pc, sNot(sApp("select", t.lookup(st, "$held"), mid)), posStr(t.eng.fset, pos), "callee locks "+m.Mutex)
				o.Fn = fullName(a.fn)
				a.monitorHavoc(m, owner.S, mid, st)
				a.monitorInv(m, owner.S, mid, st, false, pos)
			}
		}
		pre = st.clone()
		env.st, env.old, env.callBase = pre, pre, pre
	}
	// values of opaque calls the callee will make are nameable relative to the pre-state
	for _, c := range con.Clauses {
		if c.Kind == "ext" || c.Kind == "oldlet" {
			vars[c.Name] = env.evalSrc(c.Expr, c.Src)
		}
	}
	// ghost locals of the callee's own proof (assigned by oncall / atexit clauses) are unknown to the caller
	hookAssigned := map[string]bool{}
	for _, c := range con.Clauses {
		if c.Kind == "oncall" || c.Kind == "atexit" || c.Kind == "beforecall" || c.Kind == "onwrite" {
			for _, as := range strings.Split(c.Expr, ";") {
				if k := strings.Index(as, ":="); k >= 0 {
					hookAssigned[strings.TrimSpace(as[:k])] = true
				}
			}
		}
	}
	for _, c := range con.Clauses {
		if c.Kind == "oncall" || c.Kind == "atexit" || c.Kind == "beforecall" {
			for _, as := range strings.Split(c.Expr, ";") {
				if k := strings.Index(as, ":="); k >= 0 {
					nm := strings.TrimSpace(as[:k])
					if !strings.ContainsAny(nm, ".[") {
						// (also when an 'oldlet' gives the variable its initial value: what the hooks did to it during the
						// call is not known here; keeping the initial value would make "n == 1" read "0 == 1" and turn
						// the rest of the caller's path into a vacuous proof)
						if old, have := vars[nm]; !have || hookAssigned[nm] {
							nv := intVal(t.fresh("ghost:"+nm, "Int"))
							if have && old.isScalar() {
								nv = old
								nv.S = t.fresh("ghost:"+nm, old.sort())
							}
							vars[nm] = nv
						}
					}
				}
			}
		}
	}
	// frame
	targets, havoc, _ := t.resolveMods(env, con)
	post := st
	if havoc {
		post = t.havocState(st, t.eng.keepAcrossOpaque)
		// logical time advances; the call counters change only where the contract says so (modifies calls(f))
		t.regArray("$tick", "Int")
		old := t.lookup(st, "$tick")
		nv := t.fresh("$tick@c", "Int")
		t.set(post, "$tick", nv)
		t.assume(st.pc, "(>= "+nv+" "+old+")")
	} else {
		post = st.clone()
	}
	for _, m := range targets {
		switch {
		case m.methodCalls:
			calls := t.callsArr(post)
			nc := t.fresh("$calls@mc", "(Array Int Int)")
			t.assume(st.pc, "(forall ((|r!m| Int)) (! (and (>= (select "+nc+" |r!m|) (select "+calls+" |r!m|)) (=> (not (= ("+t.fkind()+" |r!m|) 3)) (= (select "+nc+" |r!m|) (select "+calls+" |r!m|)))) :pattern ((select "+nc+" |r!m|))))")
			t.set(post, "$calls", nc)
			for name := range t.arrSort {
				if strings.HasPrefix(name, "$oarg") || name == "$otick" {
					t.set(post, name, t.fresh(name+"@mc", t.sortOfArray(name)))
				}
			}
		case m.callsOf != "":
			calls := t.callsArr(post)
			nv := t.fresh("calls@c", "Int")
			t.assume(st.pc, "(>= "+nv+" "+sApp("select", calls, m.callsOf)+")")
			// a nil function value is never called (nilcall obligations): the counter of "nil" does not move
			never := sEq(m.callsOf, "0")
			if m.recv != "" {
				never = sOr(never, sEq(m.recv, "0"))
			}
			t.set(post, "$calls", sIte(never, calls, sApp("store", calls, m.callsOf, nv)))
			t.regArray("$tick", "Int")
			tk := t.lookup(post, "$tick")
			ntk := t.fresh("tick@c", "Int")
			t.assume(st.pc, "(>= "+ntk+" "+tk+")")
			t.set(post, "$tick", ntk)
			for name := range t.arrSort {
				if strings.HasPrefix(name, "$oarg") || name == "$otick" {
					cur := t.lookup(post, name)
					inner := t.fresh(name+"@ci", strings.TrimSuffix(strings.TrimPrefix(t.sortOfArray(name), "(Array Int "), ")"))
					t.set(post, name, sIte(never, cur, sApp("store", cur, m.callsOf, inner)))
				}
			}
		case m.isPrefix && m.array == "":
			// modifies *: any call counter may move
			for _, name := range []string{"$calls", "$otick"} {
				if _, ok := t.arrSort[name]; ok {
					oc := t.lookup(post, name)
					nc := t.fresh(name+"@c", t.sortOfArray(name))
					t.set(post, name, nc)
					if name == "$calls" {
						t.assume(st.pc, "(forall ((|r!m| Int)) (! (>= (select "+nc+" |r!m|) (select "+oc+" |r!m|)) :pattern ((select "+nc+" |r!m|))))")
					}
				}
			}
			for name := range t.arrSort {
				if strings.HasPrefix(name, "$oarg") {
					t.set(post, name, t.fresh(name+"@c", t.sortOfArray(name)))
				}
			}
		case m.isPrefix:
			var names []string
			for name := range t.arrSort {
				if strings.HasPrefix(name, m.array) {
					names = append(names, name)
				}
			}
			sort.Strings(names)
			for _, name := range names {
				t.set(post, name, t.fresh(name+"@c", t.sortOfArray(name)))
			}
		case m.ref == "":
			t.set(post, m.array, t.fresh(m.array+"@c", t.sortOfArray(m.array)))
		default:
			cur := t.lookup(post, m.array)
			srt := t.sortOfArray(m.array)
			inner := strings.TrimSuffix(strings.TrimPrefix(srt, "(Array Int "), ")")
			nv := t.fresh(m.array+"@cv", inner)
			t.set(post, m.array, sApp("store", cur, m.ref, nv))
		}
	}
	// a callee whose contract counts the goroutines it starts changes that counter for its caller as well
	for _, c := range con.Clauses {
		if c.Kind == "ensures" && strings.Contains(c.Expr, "spawned()") {
			t.regArray("$spawned", "Int")
			old := t.lookup(post, "$spawned")
			ns := t.fresh("$spawned@c", "Int")
			t.assume(st.pc, "(>= "+ns+" "+old+")")
			t.set(post, "$spawned", ns)
			break
		}
	}
	// the callee may allocate: later allocations of the caller are newer than anything it returned
	{
		t.regArray("$now", "Int")
		old := t.lookup(post, "$now")
		nn := t.fresh("now@c", "Int")
		t.assume(st.pc, "(>= "+nn+" "+old+")")
		t.set(post, "$now", nn)
	}
	// results
	var res []Val
	for i := 0; i < sig.Results().Len(); i++ {
		v := t.freshValue(st.pc, shortName(con.Full)+".res", sig.Results().At(i).Type())
		res = append(res, v)
		vars[fmt.Sprintf("result_%d", i)] = v
	}
	penv := &ExprEnv{t: t, st: post, old: pre, vars: vars, pkg: pkg, callBase: pre}
	for _, c := range con.Clauses {
		switch c.Kind {
		case "let":
			ne := len(t.errs)
			v := penv.evalSrc(c.Expr, c.Src)
			if len(t.errs) > ne {
				// names the callee's locals: not expressible at a call site
				t.errs = t.errs[:ne]
				continue
			}
			vars[c.Name] = v
		case "premise", "ensures", "assume":
			// (a premise is an environment premise of the callee: part of what the caller may rely on as well, listed)
			// A clause over the callee's own locals (local("x"), loop variables) cannot be stated at a call site: it is
			// proved on the callee and simply not handed to the caller (fewer assumptions: sound).
			ne := len(t.errs)
			v := penv.evalBool(c.Expr, c.Src)
			if len(t.errs) > ne {
				t.errs = t.errs[:ne]
				continue
			}
			n0 := len(t.asserts)
			t.assume(st.pc, v)
			if c.Kind == "ensures" && len(t.asserts) > n0 && !con.Trusted {
				if t.assertTag == nil {
					t.assertTag = map[int]*assertTag{}
				}
				t.assertTag[n0] = &assertTag{con, c.Src}
			}
		}
	}
	for _, r := range res {
		a.wfRefPost(post, r)
	}
	if con.hasClause("returnsfresh") {
		// the callee hands back a newly allocated object nobody else knows yet: private to the caller until it escapes
		for i, r := range res {
			if r.K == KRef && r.Loc == nil {
				if T := derefType(sig.Results().At(i).Type()); T != nil {
					post.private = append(post.private, privRef{r.S, prefixFor(T)})
				}
			}
		}
	}
	{
		a.arith["callcover"]++
		nm := fmt.Sprintf("%s#after[%s:%d]", fullName(a.rootAct().fn), shortName(con.Full), a.arith["callcover"])
		before := &Obligation{Name: nm + "#before", Kind: "cover", Fn: fullName(a.fn), Pc: st.pc, Goal: tFalse, NAssert: nAssertBefore, task: t, Src: con.Src}
		after := &Obligation{Name: nm, Kind: "cover", Fn: fullName(a.fn), Pc: st.pc, Goal: tFalse, NAssert: len(t.asserts), task: t, Src: con.Src}
		t.callCovers = append(t.callCovers, [2]*Obligation{before, after})
	}
	return post, res
}

// wfRefPost: results of contracted calls are either old or freshly allocated: no constraint except non-garbage.
func (a *Activation) wfRefPost(st *State, v Val) {
	a.wfRef(st, v)
}

func caseSuffix(c *FuncContract) string {
	if c.Case != "" {
		return " case " + c.Case
	}
	return ""
}

func shortName(full string) string {
	if k := strings.LastIndex(full, "/"); k >= 0 {
		return full[k+1:]
	}
	return full
}

// ---- verifying one function against its contract ----

func (t *Task) verifyFunc(fn *ssa.Function, con *FuncContract) {
	t.curFn = fullName(fn)
	t.rootCon = con
	for _, c := range con.Clauses {
		if c.Kind == "mode" && strings.TrimSpace(c.Expr) == "absmul" {
			t.absMul = true
		}
		if c.Kind == "mode" && strings.TrimSpace(c.Expr) == "bv64" {
			t.bv = true
			gBV = true
		}
	}
	st0 := t.newEpochState(tTrue)
	t.regArray("$now", "Int")
	t.regArray("$tick", "Int")
	t.regArray("$spawned", "Int")
	t.callsArr(st0)
	var args, fvs []Val
	for _, p := range fn.Params {
		v := t.freshValue(tTrue, "in:"+p.Name(), p.Type())
		v = t.bvParam(v)
		args = append(args, v)
		t.registerModelSyms(v)
	}
	for _, fv := range fn.FreeVars {
		v := t.freshValue(tTrue, "fv:"+fv.Name(), fv.Type())
		fvs = append(fvs, v)
		t.registerModelSyms(v)
		if v.K == KRef {
			// captured variables are cells: never nil
			t.assume(tTrue, sNot(sEq(v.S, "0")))
		}
	}
	a0 := &Activation{t: t, fn: fn}
	for _, v := range append(append([]Val{}, args...), fvs...) {
		a0.wfRef(st0, v)
	}
	// requires
	a := &Activation{t: t, fn: fn, env: map[ssa.Value]Val{}, entry: st0, params: map[string]Val{}, con: con, lets: map[string]Val{}}
	for i, p := range fn.Params {
		a.params[p.Name()] = args[i]
		a.env[p] = args[i]
	}
	for i, p := range fn.FreeVars {
		a.params[p.Name()] = fvs[i]
		a.env[p] = fvs[i]
	}
	env := a.exprEnv(st0, nil)
	for _, c := range con.Clauses {
		switch c.Kind {
		case "requires":
			v := env.evalBool(c.Expr, c.Src)
			t.assume(tTrue, v)
			t.requiresListed = append(t.requiresListed, c.Expr)
		case "premise":
			// magnitude premise about the environment (clock values ...): assumed, listed, not a call-site obligation
			t.assume(tTrue, env.evalBool(c.Expr, c.Src))
			t.assumed["magnitude premise ("+c.Src+"): "+c.Expr] = true
		case "use":
			// lemma instances are also available from the start (arguments are read in the entry state),
			// unless they mention exit-state lets
			if mentionsLet(con, c.Expr) {
				continue
			}
			if f := t.lemmaInstance(env, c); f != "" {
				t.assume(tTrue, f)
			}
		case "oldlet":
			v := env.evalSrc(c.Expr, c.Src)
			env.vars[c.Name] = v
			if t.pendingLets == nil {
				t.pendingLets = map[string]Val{}
			}
			t.pendingLets[c.Name] = v
		case "ext":
			// values returned by opaque calls made in the body: nameable from the start
			v := env.evalSrc(c.Expr, c.Src)
			env.vars[c.Name] = v
			if t.pendingLets == nil {
				t.pendingLets = map[string]Val{}
			}
			t.pendingLets[c.Name] = v
			if v.isScalar() {
				t.modelSyms = append(t.modelSyms, v.S)
			}
		}
	}
	t.unsetGhosts(con, env)
	// vacuity: the preconditions must be satisfiable
	cv := &Obligation{Name: t.curFn + caseSuffix(con) + "#cover[requires]", Kind: "cover", Fn: t.curFn, Pc: tTrue, Goal: tFalse, NAssert: len(t.asserts), task: t, Src: con.Src}
	t.covers = append(t.covers, cv)

	out, res, act := t.run(fn, args, fvs, st0, 0, con, nil, nil)
	t.curFn = fullName(fn)
	if out == nil || out.dead {
		// function never returns normally (e.g. infinite loop): nothing to prove at exit
		return
	}
	vars := map[string]Val{}
	for i, r := range res {
		vars[fmt.Sprintf("result_%d", i)] = r
	}
	for k, v := range vars {
		// result_i are visible to ghost updates at exit (atexit) as well
		act.lets[k] = v
	}
	penv := act.exprEnv(out, vars)
	// reachability of the exit
	cv2 := &Obligation{Name: t.curFn + caseSuffix(con) + "#cover[exit]", Kind: "cover", Fn: t.curFn, Pc: out.pc, Goal: tFalse, NAssert: len(t.asserts), task: t, Src: con.Src}
	if con.hasClause("noexitcover") {
		t.callCovers = nil // (same reason: the assumed precondition is the recorded finding)
	}
	if !con.hasClause("noexitcover") {
		// (a lemma harness whose only purpose is a call-site precondition that is a recorded finding has no reachable
		// exit once that precondition is assumed)
		t.covers = append(t.covers, cv2)
	}
	n := 0
	for _, c := range con.Clauses {
		switch c.Kind {
		case "let", "ext":
			v := penv.evalSrc(c.Expr, c.Src)
			penv.vars[c.Name] = v
			act.lets[c.Name] = v
		case "witness":
			v := penv.evalSrc(c.Expr, c.Src)
			if v.isScalar() {
				if t.modelNames == nil {
					t.modelNames = map[string]string{}
				}
				t.modelNames[v.S] = c.Name
				t.modelSyms = append(t.modelSyms, v.S)
			}
		case "use":
			// instantiate a lemma (proved separately in the same check) at the given arguments
			if f := t.lemmaInstance(penv, c); f != "" {
				t.assume(out.pc, f)
			}
		case "atexit":
			act.ghostAssign(out, c)
			penv = act.exprEnv(out, vars)
			for k, v := range act.lets {
				penv.vars[k] = v
			}
		case "assume":
			// extra assumption at exit (trusted, listed)
			t.assume(out.pc, penv.evalBool(c.Expr, c.Src))
			t.assumed["assume clause at "+c.Src+": "+c.Expr] = true
		case "ensures":
			parts := splitConj(c.Expr)
			for pi, part := range parts {
				v := penv.evalBool(part, c.Src)
				name := fmt.Sprintf("%s%s#ensures[%s]", t.curFn, caseSuffix(con), labelOr(c.Label, n))
				if len(parts) > 1 {
					name = fmt.Sprintf("%s%s#ensures[%s/%d]", t.curFn, caseSuffix(con), labelOr(c.Label, n), pi+1)
				}
				t.oblige("ensures", name, c.Label, out.pc, v, c.Src, part)
			}
			n++
		}
	}
	t.frameCheck(act, con, act.entry, out)
}

func (t *Task) registerModelSyms(v Val) {
	switch v.K {
	case KStruct, KTuple, KSlice:
		for _, f := range v.Fields {
			t.registerModelSyms(f)
		}
	case KUnit:
	default:
		t.modelSyms = append(t.modelSyms, v.S)
	}
}

// frameCheck: everything outside the modifies clauses is unchanged (for pre-existing objects).
func (t *Task) frameCheck(act *Activation, con *FuncContract, st0, out *State) {
	env := act.exprEnv(st0, nil)
	env.old = st0
	targets, havoc, _ := t.resolveMods(env, con)
	var names []string
	for n := range t.arrSort {
		names = append(names, n)
	}
	sort.Strings(names)
	age := t.declareFun("$age", []string{"Int"}, "Int")
	now0 := t.lookup(st0, "$now")
	fname := t.curFn + caseSuffix(con)
	for _, name := range names {
		srt := t.sortOfArray(name)
		if !strings.HasPrefix(srt, "(Array Int") {
			continue
		}
		if strings.HasPrefix(name, "$") && name != "$held" && name != "$calls" && name != "$tok" && name != "$chanclosed" && name != "$g:canc" {
			continue
		}
		if strings.HasPrefix(name, "box:") {
			continue
		}
		if havoc && !strings.HasPrefix(name, "$") && !t.eng.keepAcrossOpaque(name) {
			continue
		}
		a1 := t.lookup(out, name)
		a0 := t.lookup(st0, name)
		if a1 == a0 {
			continue
		}
		whole := false
		methodsFree := false
		var refs []string
		for _, m := range targets {
			if m.methodCalls {
				methodsFree = true
				continue
			}
			if m.callsOf != "" {
				if name == "$calls" {
					refs = append(refs, m.callsOf)
				}
				continue
			}
			if m.isPrefix && strings.HasPrefix(name, m.array) {
				whole = true
			}
			if !m.isPrefix && m.array == name {
				if m.ref == "" {
					whole = true
				} else {
					refs = append(refs, m.ref)
				}
			}
		}
		if whole {
			continue
		}
		r := t.fresh("frame:r", "Int")
		t.modelSyms = append(t.modelSyms, r)
		var prem []string
		if !strings.HasPrefix(name, "$") {
			prem = append(prem, "(< "+sApp(age, r)+" "+now0+")")
		} else if name == "$held" || name == "$tok" || name == "$chanclosed" {
			prem = append(prem, "(< "+sApp(age, r)+" "+now0+")")
		}
		for _, x := range refs {
			prem = append(prem, sNot(sEq(r, x)))
		}
		if name == "$calls" && methodsFree {
			prem = append(prem, sNot(sEq(sApp(t.fkind(), r), "3")))
		}
		if name == "$calls" {
			if t.modelNames == nil {
				t.modelNames = map[string]string{}
			}
			for i, m := range targets {
				if m.callsOf != "" {
					t.modelSyms = append(t.modelSyms, m.callsOf)
					t.modelNames[m.callsOf] = fmt.Sprintf("calls-target-%d", i)
				}
			}
		}
		goal := sImp(sAnd(prem...), sEq(sApp("select", a1, r), sApp("select", a0, r)))
		oname := fmt.Sprintf("%s#frame[%s]", fname, name)
		o := t.oblige("frame", oname, "", out.pc, goal, con.Src, "only the modifies clause may change "+name)
		_ = o
	}
}

// lemmaInstance: "use label(a, b, ...)" -> the lemma's body with its forall-bound variables replaced by the arguments.
func (t *Task) lemmaInstance(env *ExprEnv, c Clause) string {
	txt := strings.TrimSpace(c.Expr)
	po := strings.Index(txt, "(")
	if po < 0 || !strings.HasSuffix(txt, ")") {
		t.errorf("%s: use: expected label(args)", c.Src)
		return ""
	}
	label := strings.TrimSpace(txt[:po])
	args := splitTop(txt[po+1:len(txt)-1], ',')
	var lem *Lemma
	for _, l := range t.eng.con.Lemmas {
		if l.Label == label {
			lem = l
		}
	}
	if lem == nil {
		t.errorf("%s: use: unknown lemma %s", c.Src, label)
		return ""
	}
	expr := strings.TrimSpace(lem.Expr)
	if !strings.HasPrefix(expr, "forall ") {
		t.errorf("%s: use: lemma %s is not universally quantified", c.Src, label)
		return ""
	}
	k := topLevelIndex(expr, "::")
	binders := strings.TrimSpace(expr[len("forall "):k])
	body := strings.TrimSpace(expr[k+2:])
	var names []string
	for _, b := range strings.Split(binders, ",") {
		nm, _ := splitWord(strings.TrimSpace(b))
		names = append(names, nm)
	}
	if len(names) != len(args) {
		t.errorf("%s: use: lemma %s has %d variables, %d arguments given", c.Src, label, len(names), len(args))
		return ""
	}
	n := *env
	n.vars = map[string]Val{}
	for kk, v := range env.vars {
		n.vars[kk] = v
	}
	for i, nm := range names {
		n.vars[nm] = env.evalSrc(strings.TrimSpace(args[i]), c.Src)
		n.vars["$nofv:"+nm] = Val{}
	}
	n.pkg = lem.Pkg
	t.assumed["lemma "+label+" (machine-checked in the same run) instantiated at "+c.Src] = true
	return n.evalBool(body, lem.Src)
}

var identRe = regexp.MustCompile(`[A-Za-z_][A-Za-z0-9_]*`)

// mentionsLet: the expression names a 'let' of the contract (lets are evaluated at exit).
func mentionsLet(con *FuncContract, expr string) bool {
	lets := map[string]bool{}
	for _, c := range con.Clauses {
		if c.Kind == "let" {
			lets[c.Name] = true
		}
	}
	for _, id := range identRe.FindAllString(expr, -1) {
		if lets[id] {
			return true
		}
	}
	return false
}

// unsetGhosts: ghost locals that only an 'oncall' hook assigns have no value on a path where the hooked call never
// happens. When the hook's target still exists in the program, that is a fact about the code (the call is not made), not a
// contract that no longer matches it: the names are bound to unconstrained values so that the clauses over them are
// evaluated (and fail) instead of stopping the evaluation with "unknown identifier". When the target does not exist any
// more the names stay unbound and the evaluation errors make the task UNDECIDED.
func (t *Task) unsetGhosts(con *FuncContract, env *ExprEnv) {
	for _, c := range con.Clauses {
		if c.Kind != "oncall" || !t.eng.hookTargetExists(c.Name) {
			continue
		}
		for _, as := range strings.Split(c.Expr, ";") {
			as = strings.TrimSpace(as)
			k := strings.Index(as, ":=")
			if k < 0 || strings.HasPrefix(as, "assert ") || strings.HasPrefix(as, "assume ") {
				continue
			}
			name := strings.TrimSpace(as[:k])
			if _, ok := env.vars[name]; ok {
				continue
			}
			if _, ok := t.pendingLets[name]; ok {
				continue
			}
			v := Val{K: KInt, S: t.fresh("unset:"+name, "Int"), Unset: true}
			env.vars[name] = v
			if t.pendingLets == nil {
				t.pendingLets = map[string]Val{}
			}
			t.pendingLets[name] = v
		}
	}
}

func (e *Eng) hookTargetExists(name string) bool {
	for full := range e.funcs {
		if strings.HasSuffix(full, name) {
			return true
		}
	}
	if !strings.ContainsAny(name, ".()") {
		// a bare method name: an interface of the program has it
		for _, p := range e.pkgs {
			if p.Types == nil {
				continue
			}
			sc := p.Types.Scope()
			for _, n := range sc.Names() {
				if tn, ok := sc.Lookup(n).(*types.TypeName); ok {
					if it, ok := tn.Type().Underlying().(*types.Interface); ok {
						for i := 0; i < it.NumMethods(); i++ {
							if it.Method(i).Name() == name {
								return true
							}
						}
					}
				}
			}
		}
	}
	return false
}
