package main

// Replay of counter-models on the real code: `go test -overlay` injects an in-package test file
// without writing into /repo.

import (
	"math/big"
	"strconv"
	"bytes"
	"context"
	"encoding/json"
	"fmt"
	"os"
	"os/exec"
	"path/filepath"
	"strings"
	"time"
)

type overlayResult struct {
	failed bool
	built  bool
	log    string
}

// runOverlayTest runs test file src as if it were placed in package directory pkgRel of repo.
func runOverlayTest(repo, src, pkgRel, run string, race bool) overlayResult {
	tmp, err := os.MkdirTemp("", "fsv-replay-")
	if err != nil {
		return overlayResult{log: err.Error()}
	}
	defer os.RemoveAll(tmp)
	data, err := os.ReadFile(src)
	if err != nil {
		return overlayResult{log: err.Error()}
	}
	return runOverlayTestData(repo, data, pkgRel, run, race, tmp)
}

func runOverlayTestData(repo string, data []byte, pkgRel, run string, race bool, tmp string) overlayResult {
	tf := filepath.Join(tmp, "zz_fsv_replay_test.go")
	os.WriteFile(tf, data, 0o644)
	target := filepath.Join(repo, pkgRel, "zz_fsv_replay_test.go")
	ov := map[string]map[string]string{"Replace": {target: tf}}
	ovb, _ := json.Marshal(ov)
	ovf := filepath.Join(tmp, "overlay.json")
	os.WriteFile(ovf, ovb, 0o644)
	args := []string{"test", "-overlay", ovf, "-vet=off", "-count=1", "-timeout", "60s"}
	if race {
		args = append(args, "-race")
	}
	if run != "" {
		args = append(args, "-run", run)
	}
	args = append(args, "./"+pkgRel)
	ctx, cancel := context.WithTimeout(context.Background(), 180*time.Second)
	defer cancel()
	cmd := exec.CommandContext(ctx, "go", args...)
	cmd.Dir = repo
	cmd.Env = append(os.Environ(), "GOFLAGS=-mod=mod", "GOPROXY=off", "GOSUMDB=off", "GOTOOLCHAIN=local", "GOCACHE="+goCacheDir())
	var out bytes.Buffer
	cmd.Stdout = &out
	cmd.Stderr = &out
	err := cmd.Run()
	log := out.String()
	res := overlayResult{log: "$ go " + strings.Join(args, " ") + "\n" + truncate(log, 5000)}
	if err == nil {
		res.built = true
		return res
	}
	if strings.Contains(log, "--- FAIL") || strings.Contains(log, "WARNING: DATA RACE") || strings.Contains(log, "panic:") {
		res.built = true
		res.failed = true
		return res
	}
	// build failure or timeout: not a confirmed failure
	res.log += "\n(replay did not run to a test verdict: " + fmt.Sprint(err) + ")"
	return res
}

func goCacheDir() string {
	if d := os.Getenv("GOCACHE"); d != "" {
		return d
	}
	home, _ := os.UserHomeDir()
	return filepath.Join(home, ".cache", "go-build")
}

type replayResult struct {
	failed bool
	log    string
}

// replayModel instantiates the replay template of the obligation's function with the model values.
func replayModel(eng *Eng, id string, o *Obligation) replayResult {
	tmpl := findReplayTemplate(o)
	if tmpl == nil {
		return replayResult{log: "no replay template for " + o.Fn + ": the obligation is reported without a concrete failing input"}
	}
	return tmpl.runModel(eng, o)
}


// Replay templates: /verif/replay/templates/*.go.tmpl, a Go test with header lines
//   // fsv:fn <suffix of the function name under contract>
//   // fsv:pkg <package dir relative to the repo root>
//   // fsv:run <test name>
//   // fsv:need A C P ...     (witness names that must be present in the model)
// and placeholders {{NAME}} replaced by the model's value of the witness NAME.
type replayTemplate struct {
	fn, pkg, run string
	need         []string
	text         string
	race         bool
}

func loadReplayTemplates() []*replayTemplate {
	var out []*replayTemplate
	files, _ := filepath.Glob(filepath.Join(verifDir, "replay", "templates", "*.go.tmpl"))
	if len(files) == 0 {
		files, _ = filepath.Glob(filepath.Join("/verif", "replay", "templates", "*.go.tmpl"))
	}
	for _, f := range files {
		data, err := os.ReadFile(f)
		if err != nil {
			continue
		}
		t := &replayTemplate{text: string(data)}
		for _, l := range strings.Split(string(data), "\n") {
			l = strings.TrimSpace(l)
			switch {
			case strings.HasPrefix(l, "// fsv:fn "):
				t.fn = strings.TrimSpace(l[len("// fsv:fn "):])
			case strings.HasPrefix(l, "// fsv:pkg "):
				t.pkg = strings.TrimSpace(l[len("// fsv:pkg "):])
			case strings.HasPrefix(l, "// fsv:run "):
				t.run = strings.TrimSpace(l[len("// fsv:run "):])
			case strings.HasPrefix(l, "// fsv:need "):
				t.need = strings.Fields(l[len("// fsv:need "):])
			case strings.HasPrefix(l, "// fsv:race"):
				t.race = true
			}
		}
		if t.fn != "" {
			out = append(out, t)
		}
	}
	return out
}

func findReplayTemplate(o *Obligation) *replayTemplate {
	for _, t := range loadReplayTemplates() {
		if strings.HasSuffix(o.Fn, t.fn) {
			return t
		}
	}
	return nil
}

// smtIntToGo converts an SMT integer / real / bool literal to Go source text.
func smtValToGo(v string) (string, bool) {
	v = strings.TrimSpace(v)
	neg := false
	for strings.HasPrefix(v, "(- ") && strings.HasSuffix(v, ")") {
		v = strings.TrimSpace(v[3 : len(v)-1])
		neg = !neg
	}
	if v == "true" || v == "false" {
		return v, true
	}
	if strings.HasPrefix(v, "(/ ") && strings.HasSuffix(v, ")") {
		parts := strings.Fields(v[3 : len(v)-1])
		if len(parts) == 2 {
			r := "(" + parts[0] + "/" + parts[1] + ")"
			if neg {
				r = "-" + r
			}
			return r, true
		}
		return "", false
	}
	if strings.HasPrefix(v, "#x") {
		return "0x" + v[2:], true
	}
	if strings.HasPrefix(v, "(fp ") {
		// (fp #b0 #x7f #b000...) -> math.Float32frombits(0x...)
		parts := strings.Fields(strings.TrimSuffix(v[4:], ")"))
		if len(parts) == 3 {
			bits := ""
			for _, p := range parts {
				switch {
				case strings.HasPrefix(p, "#b"):
					bits += p[2:]
				case strings.HasPrefix(p, "#x"):
					for _, c := range p[2:] {
						n, err := strconv.ParseUint(string(c), 16, 8)
						if err != nil {
							return "", false
						}
						bits += fmt.Sprintf("%04b", n)
					}
				}
			}
			if len(bits) == 32 {
				n, err := strconv.ParseUint(bits, 2, 32)
				if err == nil {
					return fmt.Sprintf("math.Float32frombits(0x%08x)", n), true
				}
			}
		}
		return "", false
	}
	if strings.HasPrefix(v, "(_ bv") {
		// (_ bv123 64): 64-bit vector, two's complement
		f := strings.Fields(v[5:])
		if len(f) >= 1 {
			n := new(big.Int)
			if _, ok := n.SetString(f[0], 10); ok {
				if n.Bit(63) == 1 {
					n.Sub(n, new(big.Int).Lsh(big.NewInt(1), 64))
				}
				return n.String(), true
			}
		}
		return "", false
	}
	if strings.HasPrefix(v, "#b") && len(v) == 66 {
		n := new(big.Int)
		if _, ok := n.SetString(v[2:], 2); ok {
			if n.Bit(63) == 1 {
				n.Sub(n, new(big.Int).Lsh(big.NewInt(1), 64))
			}
			return n.String(), true
		}
	}
	if strings.HasPrefix(v, "#x") && len(v) == 18 {
		n := new(big.Int)
		if _, ok := n.SetString(v[2:], 16); ok {
			if n.Bit(63) == 1 {
				n.Sub(n, new(big.Int).Lsh(big.NewInt(1), 64))
			}
			return n.String(), true
		}
	}
	if strings.HasPrefix(v, "(_ ") {
		return "", false
	}
	for _, c := range v {
		if !(c >= '0' && c <= '9' || c == '.') {
			return "", false
		}
	}
	if v == "" {
		return "", false
	}
	if neg {
		v = "-" + v
	}
	return v, true
}

func (tp *replayTemplate) runModel(eng *Eng, o *Obligation) replayResult {
	named := map[string]string{}
	for term, val := range o.Result.Model {
		if n, ok := o.task.modelNames[term]; ok {
			named[n] = val
		}
	}
	text := tp.text
	var log strings.Builder
	log.WriteString("model (witness values):\n")
	for _, n := range tp.need {
		raw, ok := named[n]
		if !ok {
			return replayResult{log: "model has no value for witness " + n}
		}
		gv, ok := smtValToGo(raw)
		if !ok {
			return replayResult{log: "model value of " + n + " cannot be rendered in Go: " + raw}
		}
		fmt.Fprintf(&log, "  %s = %s\n", n, gv)
		text = strings.ReplaceAll(text, "{{"+n+"}}", gv)
	}
	tmp, err := os.MkdirTemp("", "fsv-replay-")
	if err != nil {
		return replayResult{log: err.Error()}
	}
	defer os.RemoveAll(tmp)
	res := runOverlayTestData(eng.repo, []byte(text), tp.pkg, tp.run, tp.race, tmp)
	log.WriteString(res.log)
	log.WriteString("\n--- replay test source ---\n" + text)
	return replayResult{failed: res.failed, log: log.String()}
}
