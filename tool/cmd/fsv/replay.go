package main

// Replay of counter-models on the real code: `go test -overlay` injects an in-package test file
// without writing into /repo.

import (
	"bytes"
	"context"
	"encoding/json"
	"fmt"
	"os"
	"os/exec"
	"path/filepath"
	"strings"
	"time"
)

type overlayResult struct {
	failed bool
	built  bool
	log    string
}

// runOverlayTest runs test file src as if it were placed in package directory pkgRel of repo.
func runOverlayTest(repo, src, pkgRel, run string, race bool) overlayResult {
	tmp, err := os.MkdirTemp("", "fsv-replay-")
	if err != nil {
		return overlayResult{log: err.Error()}
	}
	defer os.RemoveAll(tmp)
	data, err := os.ReadFile(src)
	if err != nil {
		return overlayResult{log: err.Error()}
	}
	return runOverlayTestData(repo, data, pkgRel, run, race, tmp)
}

func runOverlayTestData(repo string, data []byte, pkgRel, run string, race bool, tmp string) overlayResult {
	tf := filepath.Join(tmp, "zz_fsv_replay_test.go")
	os.WriteFile(tf, data, 0o644)
	target := filepath.Join(repo, pkgRel, "zz_fsv_replay_test.go")
	ov := map[string]map[string]string{"Replace": {target: tf}}
	ovb, _ := json.Marshal(ov)
	ovf := filepath.Join(tmp, "overlay.json")
	os.WriteFile(ovf, ovb, 0o644)
	args := []string{"test", "-overlay", ovf, "-vet=off", "-count=1", "-timeout", "60s"}
	if race {
		args = append(args, "-race")
	}
	if run != "" {
		args = append(args, "-run", run)
	}
	args = append(args, "./"+pkgRel)
	ctx, cancel := context.WithTimeout(context.Background(), 180*time.Second)
	defer cancel()
	cmd := exec.CommandContext(ctx, "go", args...)
	cmd.Dir = repo
	cmd.Env = append(os.Environ(), "GOFLAGS=-mod=mod", "GOPROXY=off", "GOSUMDB=off", "GOTOOLCHAIN=local", "GOCACHE="+goCacheDir())
	var out bytes.Buffer
	cmd.Stdout = &out
	cmd.Stderr = &out
	err := cmd.Run()
	log := out.String()
	res := overlayResult{log: "$ go " + strings.Join(args, " ") + "\n" + truncate(log, 5000)}
	if err == nil {
		res.built = true
		return res
	}
	if strings.Contains(log, "--- FAIL") || strings.Contains(log, "WARNING: DATA RACE") || strings.Contains(log, "panic:") {
		res.built = true
		res.failed = true
		return res
	}
	// build failure or timeout: not a confirmed failure
	res.log += "\n(replay did not run to a test verdict: " + fmt.Sprint(err) + ")"
	return res
}

func goCacheDir() string {
	if d := os.Getenv("GOCACHE"); d != "" {
		return d
	}
	home, _ := os.UserHomeDir()
	return filepath.Join(home, ".cache", "go-build")
}

type replayResult struct {
	failed bool
	log    string
}

// replayModel instantiates the replay template of the obligation's function with the model values.
func replayModel(eng *Eng, id string, o *Obligation) replayResult {
	tmpl := findReplayTemplate(o)
	if tmpl == nil {
		return replayResult{log: "no replay template for " + o.Fn + ": the obligation is reported without a concrete failing input"}
	}
	return tmpl.run(eng, o)
}

type replayTemplate struct {
	fn  string
	run func(eng *Eng, o *Obligation) replayResult
}

var replayTemplates []*replayTemplate

func findReplayTemplate(o *Obligation) *replayTemplate {
	for _, t := range replayTemplates {
		if strings.HasSuffix(o.Fn, t.fn) {
			return t
		}
	}
	return nil
}
