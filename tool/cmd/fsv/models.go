package main

// Built-in models of Go runtime / standard-library primitives whose semantics cannot be
// expressed as a plain assumed contract (mutexes as monitors, channels, select, timers, floats).
// Everything used is recorded in Task.assumed and listed in the evidence.

import (
	"strconv"
	"fmt"
	"go/token"
	"go/types"
	"strings"

	"golang.org/x/tools/go/ssa"
)

// pureModel: modelled functions without heap effects (used by the loop modifies analysis).
var pureModel = map[string]bool{
	"math.Round": true, "time.(Duration).Nanoseconds": true, "math/rand.Float64": true, "math/rand.Float32": true,
}

func (a *Activation) model(name string, fn *ssa.Function, args []Val, st *State, pos token.Pos, sig *types.Signature) (*State, []Val, bool) {
	t := a.t
	switch name {
	case "sync.(*Mutex).Lock":
		return a.mutexLock(args[0], st, pos), nil, true
	case "sync.(*Mutex).Unlock":
		return a.mutexUnlock(args[0], st, pos), nil, true
	case "time.(Duration).Nanoseconds":
		r := args[0]
		r.T = types.Typ[types.Int64]
		return st, []Val{r}, true
	case "math.Round":
		t.assumed["math.Round modelled as round-half-away-from-zero on reals"] = true
		x := args[0].S
		fl := "(to_int (+ " + x + " 0.5))"
		cl := "(- (to_int (+ (- " + x + ") 0.5)))"
		r := sIte("(>= "+x+" 0.0)", "(to_real "+fl+")", "(to_real "+cl+")")
		return st, []Val{{K: KF64, S: r, T: types.Typ[types.Float64]}}, true
	case "math/rand.Float64":
		t.assumed["math/rand.Float64 returns an arbitrary value in [0,1)"] = true
		c := t.fresh("rand64", "Real")
		t.assume(st.pc, sAnd("(<= 0.0 "+c+")", "(< "+c+" 1.0)"))
		t.modelSyms = append(t.modelSyms, c)
		return st, []Val{{K: KF64, S: c, T: types.Typ[types.Float64]}}, true
	case "math/rand.Float32":
		t.assumed["math/rand.Float32 returns an arbitrary float32 in [0,1)"] = true
		c := t.fresh("rand32", sortOfKind(KF32))
		if t.bv {
			t.assume(st.pc, sAnd("(fp.leq (_ +zero 8 24) "+c+")", "(fp.lt "+c+" "+f32Lit(1)+")"))
		} else {
			t.assume(st.pc, sAnd("(<= 0.0 "+c+")", "(< "+c+" 1.0)"))
		}
		t.modelSyms = append(t.modelSyms, c)
		return st, []Val{{K: KF32, S: c, T: types.Typ[types.Float32]}}, true
	case "sync/atomic.(*Bool).Store", "sync/atomic.(*Bool).Load", "sync/atomic.(*Bool).CompareAndSwap",
		"sync/atomic.(*Pointer).Store", "sync/atomic.(*Pointer).Load", "sync/atomic.(*Pointer).CompareAndSwap",
		"sync/atomic.(*Int32).Add", "sync/atomic.(*Int32).Load":
		return a.atomicModel(name, args, st, pos, sig)
	case "time.AfterFunc":
		// the function runs in its own goroutine, once, not before d has elapsed (trusted); verified separately
		t.assumed["time.AfterFunc runs the function at most once and not before the duration has elapsed"] = true
		t.regArray("$spawned", "Int")
		t.set(st, "$spawned", "(+ "+t.lookup(st, "$spawned")+" 1)")
		t.regArray("$g:afterdur", "Int")
		t.set(st, "$g:afterdur", args[0].S)
		t.regArray("$g:afterfn", "Int")
		t.set(st, "$g:afterfn", args[1].S)
		a.escape(st, args[1])
		ref := a.allocRef(st, "timer", "afterfunc")
		return st, []Val{{K: KRef, S: ref, T: sig.Results().At(0).Type()}}, true
	case "time.NewTimer":
		// timer object: channel C fires only after d has elapsed (ghost: fired(timer) => elapsed >= d)
		t.assumed["time.NewTimer: the timer channel never delivers before the duration has elapsed, and at most once"] = true
		ref := a.allocRef(st, "timer", "timer")
		ch := a.allocRef(st, "chan", "timerC")
		t.regArray("time.Timer.C", "(Array Int Int)")
		t.set(st, "time.Timer.C", sApp("store", t.lookup(st, "time.Timer.C"), ref, ch))
		t.regArray("$g:lasttimerdur", "Int")
		t.set(st, "$g:lasttimerdur", args[0].S)
		t.regArray("$timerdur", "(Array Int Int)")
		t.set(st, "$timerdur", sApp("store", t.lookup(st, "$timerdur"), ch, args[0].S))
		t.regArray("$istimer", "(Array Int Bool)")
		t.set(st, "$istimer", sApp("store", t.lookup(st, "$istimer"), ch, tTrue))
		t.regArray("$tick", "Int")
		t.regArray("$timerstart", "(Array Int Int)")
		t.set(st, "$timerstart", sApp("store", t.lookup(st, "$timerstart"), ch, t.lookup(st, "$tick")))
		return st, []Val{{K: KRef, S: ref, T: sig.Results().At(0).Type()}}, true
	case "time.(*Timer).Stop":
		t.regArray("$timerstopped", "(Array Int Bool)")
		t.set(st, "$timerstopped", sApp("store", t.lookup(st, "$timerstopped"), args[0].S, tTrue))
		return st, []Val{t.freshValue(st.pc, "stop", types.Typ[types.Bool])}, true
	}
	return st, nil, false
}

// ---- mutexes as monitors ----

func (a *Activation) monitorOfMutex(mtx Val) (*Monitor, string, bool) {
	// mtx is a pointer to a sync.Mutex: either interior (&x.mtx) or loaded pointer (x.mtx of type *sync.Mutex)
	t := a.t
	for _, m := range t.eng.con.Monitors {
		tk := m.Pkg + "." + m.Type
		if mtx.Loc != nil && mtx.Loc.Prefix == tk+"."+m.Mutex {
			return m, mtx.S, true
		}
	}
	return nil, "", false
}

func (a *Activation) mutexIdentOf(mtx Val, st *State) (string, *Monitor, string) {
	t := a.t
	if m, owner, ok := a.monitorOfMutex(mtx); ok {
		return a.mutexRefOf(st, m, owner), m, owner
	}
	if mtx.Owner != "" {
		for _, m := range t.eng.con.Monitors {
			if m.PtrMtx && m.Pkg+"."+m.Type == mtx.OwnerT {
				return mtx.S, m, mtx.Owner
			}
		}
	}
	if mtx.Loc != nil {
		f := t.declareFun("$mtxof:"+mtx.Loc.Prefix, []string{"Int"}, "Int")
		return sApp(f, mtx.S), nil, ""
	}
	// pointer-valued mutex (shared between copies): identity is the pointer
	return mtx.S, nil, ""
}

func (a *Activation) mutexLock(mtx Val, st *State, pos token.Pos) *State {
	t := a.t
	t.assumed["sync.Mutex provides mutual exclusion (monitor rule: invariant assumed at Lock, re-proved at Unlock)"] = true
	id, mon, owner := a.mutexIdentOf(mtx, st)
	t.regArray("$held", "(Array Int Bool)")
	held := t.lookup(st, "$held")
	a.arith["lock"]++
	name := fmt.Sprintf("%s#nodeadlock[lock:%d]", fullName(a.fn), a.arith["lock"])
	o := t.oblige("lock", name, "C14.no_self_deadlock", st.pc, sNot(sApp("select", held, id)), posStr(t.eng.fset, pos), "mutex is not already held by this thread")
	o.Fn = fullName(a.fn)
	t.set(st, "$held", sApp("store", held, id, tTrue))
	if mon == nil {
		mon = a.monitorByPtr(mtx)
		owner = ""
	}
	if mon != nil {
		a.monitorHavoc(mon, owner, id, st)
		a.monitorInv(mon, owner, id, st, false, pos)
		// atomic action: 'old' in the contract of the function that took the lock refers to the state at Lock
		if ra := a.rootAct(); ra != nil && ra.con != nil && !ra.locked {
			ra.locked = true
			orig := ra.entry
			ra.entry = st.clone()
			for name := range t.arrSort {
				if strings.HasPrefix(name, "$") {
					ra.entry.heap[name] = t.lookup(orig, name)
				}
			}
		}
	}
	return st
}

func (a *Activation) mutexUnlock(mtx Val, st *State, pos token.Pos) *State {
	t := a.t
	id, mon, owner := a.mutexIdentOf(mtx, st)
	t.regArray("$held", "(Array Int Bool)")
	held := t.lookup(st, "$held")
	a.arith["unlock"]++
	name := fmt.Sprintf("%s#unlock[held:%d]", fullName(a.fn), a.arith["unlock"])
	o := t.oblige("lock", name, "C14.unlock_held", st.pc, sApp("select", held, id), posStr(t.eng.fset, pos), "unlock of a mutex that is held")
	o.Fn = fullName(a.fn)
	if mon == nil {
		mon = a.monitorByPtr(mtx)
	}
	if mon != nil {
		a.monitorInv(mon, owner, id, st, true, pos)
	}
	t.set(st, "$held", sApp("store", held, id, tFalse))
	return st
}

// monitorByPtr: monitors whose mutex is a pointer field shared by copies (execution.mtx).
func (a *Activation) monitorByPtr(mtx Val) *Monitor {
	if mtx.Loc != nil {
		return nil
	}
	for _, m := range a.t.eng.con.Monitors {
		if m.PtrMtx {
			return m
		}
	}
	return nil
}

// monitorHavoc: at Lock the guarded state is whatever other threads left there.
func (a *Activation) monitorHavoc(m *Monitor, owner, mid string, st *State) {
	t := a.t
	tk := m.Pkg + "." + m.Type
	for _, g := range m.Guards {
		for name := range t.arrSort {
			if name == tk+"."+g || strings.HasPrefix(name, tk+"."+g+".") || strings.HasPrefix(name, tk+"."+g+"#") {
				srt := t.sortOfArray(name)
				inner := strings.TrimSuffix(strings.TrimPrefix(srt, "(Array Int "), ")")
				cur := t.lookup(st, name)
				if owner != "" {
					nv := t.fresh(name+"@lk", inner)
					t.set(st, name, sApp("store", cur, owner, nv))
				} else {
					t.set(st, name, t.fresh(name+"@lk", srt))
				}
			}
		}
	}
	for _, o := range m.Owns {
		key := o
		if !strings.Contains(o, "/") && !strings.Contains(o, ":") {
			key = m.Pkg + "." + o
		}
		for name := range t.arrSort {
			if strings.HasPrefix(name, key+".") || strings.HasPrefix(name, "elem:"+key+".") || name == key || strings.HasPrefix(name, key+"#") {
				t.set(st, name, t.fresh(name+"@lk", t.sortOfArray(name)))
			}
		}
	}
}

// monitorInv assumes (at Lock) or proves (at Unlock) the monitor invariant.
func (a *Activation) monitorInv(m *Monitor, owner, mid string, st *State, prove bool, pos token.Pos) {
	t := a.t
	if len(m.Invs) == 0 {
		return
	}
	if owner == "" {
		return
	}
	T := t.eng.lookupNamed(m.Pkg, m.Type)
	if T == nil {
		t.errorf("monitor type %s.%s not found", m.Pkg, m.Type)
		return
	}
	self := Val{K: KRef, S: owner, T: types.NewPointer(T)}
	// guarded arrays must be materialised before the invariant is read at Lock time: evaluate twice is harmless
	env := &ExprEnv{t: t, a: nil, st: st, old: a.rootAct().entry, vars: map[string]Val{"self": self}, pkg: m.Pkg, callBase: a.rootAct().entry}
	for i, c := range m.Invs {
		if c.Kind == "premise" {
			if !prove {
				t.assume(st.pc, env.evalBool(c.Expr, c.Src))
				t.assumed["magnitude premise assumed when the lock is taken ("+c.Src+"): "+c.Expr] = true
			}
			continue
		}
		if prove {
			a.arith["moninv"]++
			parts := splitConj(c.Expr)
			for pi, part := range parts {
				v := env.evalBool(part, c.Src)
				name := fmt.Sprintf("%s#monitor[%s.%s:%d]", fullName(a.fn), m.Type, labelOr(c.Label, i), a.arith["moninv"])
				if len(parts) > 1 {
					name = fmt.Sprintf("%s#monitor[%s.%s:%d/%d]", fullName(a.fn), m.Type, labelOr(c.Label, i), a.arith["moninv"], pi+1)
				}
				o := t.oblige("monitor", name, c.Label, st.pc, v, posStr(t.eng.fset, pos), part)
				o.Fn = fullName(a.fn)
			}
		} else {
			t.assume(st.pc, env.evalBool(c.Expr, c.Src))
		}
	}
}

func (e *Eng) lookupNamed(pkg, name string) types.Type {
	p := e.allpkgs[pkg]
	if p == nil || p.Types == nil {
		return nil
	}
	if tn, ok := p.Types.Scope().Lookup(name).(*types.TypeName); ok {
		return tn.Type()
	}
	return nil
}

// ---- channels (token / message invariants) ----
// A channel is shared with other threads: its length is never known. What a thread does know is what it
// did itself: ghost $tok[ch] counts (sends by this thread) - (receives by this thread). For a semaphore
// channel this is "permits held by this thread"; the global bound sum(tokens) = len(ch) <= cap(ch) is Go's
// channel semantics (trusted). Messages are kept in a per-channel slot only for the thread's own last send.

func (a *Activation) chanArrays() {
	t := a.t
	t.regArray("$chancap", "(Array Int Int)")
	t.regArray("$chanclosed", "(Array Int Bool)")
	t.regArray("$tok", "(Array Int Int)")
	t.regArray("$sends", "(Array Int Int)")
	t.regArray("$timerfired", "(Array Int Bool)")
}

func (a *Activation) tokAdd(st *State, ch string, cond string, delta int) {
	t := a.t
	cur := t.lookup(st, "$tok")
	upd := sApp("store", cur, ch, "(+ "+sApp("select", cur, ch)+" "+sInt(int64(delta))+")")
	c := t.fresh("$tok@u", "(Array Int Int)")
	t.asserts = append(t.asserts, sImp(st.pc, sEq(c, sIte(cond, upd, cur))))
	t.set(st, "$tok", c)
	if delta > 0 {
		cs := t.lookup(st, "$sends")
		us := sApp("store", cs, ch, "(+ "+sApp("select", cs, ch)+" 1)")
		c2 := t.fresh("$sends@u", "(Array Int Int)")
		t.asserts = append(t.asserts, sImp(st.pc, sEq(c2, sIte(cond, us, cs))))
		t.set(st, "$sends", c2)
	}
}

// send outside select: blocks until there is room; on return the message is in the channel.
func (a *Activation) send(in *ssa.Send, st *State) *State {
	a.chanArrays()
	a.t.assumed["channel semantics: capacity bound, FIFO, a send returns only after the message is buffered or received"] = true
	ch := a.val(in.Chan, st)
	x := a.val(in.X, st)
	a.escape(st, x)
	a.sendSites(st, ch, x, in.Pos())
	a.tokAdd(st, ch.S, tTrue, 1)
	a.chanPut(st, ch, x)
	a.ghostEvent(st, "send", ch.S)
	return st
}

// sendSites: obligations attached to a blocking send by the contract ("sendinv" clauses: the message invariant
// and the condition under which the send cannot block).
func (a *Activation) sendSites(st *State, ch Val, x Val, pos token.Pos) {
	con := a.rootContract()
	if con == nil {
		return
	}
	t := a.t
	for i, c := range con.Clauses {
		if c.Kind != "sendinv" {
			continue
		}
		env := a.rootAct().exprEnv(st, map[string]Val{"msg": x, "ch": ch})
		for k, v := range a.params {
			env.vars[k] = v
		}
		v := env.evalBool(c.Expr, c.Src)
		a.arith["sendinv"]++
		name := fmt.Sprintf("%s#sendinv[%s:%d]", fullName(a.fn), labelOr(c.Label, i), a.arith["sendinv"])
		o := t.oblige("sendinv", name, c.Label, st.pc, v, posStr(t.eng.fset, pos), c.Expr)
		o.Fn = fullName(a.fn)
	}
}

func (a *Activation) obligeSafetyLabeled(st *State, kind, what, goal string, pos token.Pos, label string) {
	t := a.t
	a.arith[kind]++
	name := fmt.Sprintf("%s#%s[%d]", fullName(a.fn), kind, a.arith[kind])
	o := t.oblige(kind, name, label, st.pc, goal, posStr(t.eng.fset, pos), what)
	o.Fn = fullName(a.fn)
	t.assume(st.pc, goal)
}

func (a *Activation) chanPut(st *State, ch Val, x Val) {
	t := a.t
	var flat []Val
	flattenScalars(x, &flat)
	for j, v := range flat {
		name := fmt.Sprintf("$chanmsg%d%s", j, sortSig(v.K))
		t.regArray(name, "(Array Int "+sortOfKind(v.K)+")")
		t.set(st, name, sApp("store", t.lookup(st, name), ch.S, v.S))
	}
}

// chanGet: a received message is whatever some thread sent: unconstrained, except for the 'recvinv' clauses
// of the contract (message invariant, proved at every send site of the module).
func (a *Activation) chanGet(st *State, ch Val, T types.Type) Val {
	t := a.t
	v := t.buildFromScalars(T, func(k Kind, LT types.Type) string {
		term := t.fresh("recv", sortOfKind(k))
		if k == KInt {
			t.assume(st.pc, inRangeTerm(term, LT))
		}
		return term
	})
	return v
}

func (a *Activation) recvInv(st *State, ch Val, v Val, cond string) {
	con := a.rootContract()
	if con == nil {
		return
	}
	for _, c := range con.Clauses {
		if c.Kind != "recvinv" {
			continue
		}
		env := a.rootAct().exprEnv(st, map[string]Val{"msg": v, "ch": ch})
		for k, pv := range a.params {
			env.vars[k] = pv
		}
		a.t.assume(st.pc, sImp(cond, env.evalBool(c.Expr, c.Src)))
		a.t.assumed["message invariant of a channel assumed at receive (proved at the send site): "+c.Expr] = true
	}
}

// recv outside select (blocking receive).
func (a *Activation) recv(in *ssa.UnOp, st *State) *State {
	t := a.t
	a.chanArrays()
	ch := a.val(in.X, st)
	ET := in.X.Type().Underlying().(*types.Chan).Elem()
	v := a.chanGet(st, ch, ET)
	if !recvOnly(in.X.Type()) {
		a.recvInv(st, ch, v, tTrue)
	}
	if !recvOnly(in.X.Type()) {
		a.tokAdd(st, ch.S, tTrue, -1)
		a.rootAct().lets["lastmsg"] = v
	}
	a.ghostEvent(st, "recv", ch.S)
	if in.CommaOk {
		ok := t.fresh("recvok", "Bool")
		a.env[in] = Val{K: KTuple, T: in.Type(), Fields: []Val{v, boolVal(ok)}}
	} else {
		a.env[in] = v
	}
	return st
}

// selectStmt: every case may be the one that fires (which ones are ready depends on other threads).
func (a *Activation) selectStmt(in *ssa.Select, st *State) *State {
	t := a.t
	a.chanArrays()
	t.assumed["select chooses any ready case; no fairness is assumed"] = true
	n := len(in.States)
	idx := t.fresh("sel", "Int")
	lo := 0
	if !in.Blocking {
		lo = -1
	}
	t.assume(st.pc, sAnd(fmt.Sprintf("(<= %s %s)", sInt(int64(lo)), idx), fmt.Sprintf("(< %s %d)", idx, n)))
	t.modelSyms = append(t.modelSyms, idx)
	fields := []Val{{K: KInt, S: idx, T: types.Typ[types.Int]}, {K: KBool, S: t.fresh("selok", "Bool"), T: types.Typ[types.Bool]}}
	for i, s := range in.States {
		ch := a.val(s.Chan, st)
		chosen := fmt.Sprintf("(= %s %d)", idx, i)
		if s.Dir == types.SendOnly {
			x := a.val(s.Send, st)
			a.escape(st, x)
			a.tokAdd(st, ch.S, chosen, 1)
		} else {
			ET := s.Chan.Type().Underlying().(*types.Chan).Elem()
			v := a.chanGet(st, ch, ET)
			if !recvOnly(s.Chan.Type()) {
				a.recvInv(st, ch, v, chosen)
			}
			fields = append(fields, v)
			if !recvOnly(s.Chan.Type()) {
				a.tokAdd(st, ch.S, chosen, -1)
				a.rootAct().lets["lastmsg"] = v
			}
			a.timerFact(st, ch, chosen)
		}
	}
	// a select with a default branch takes the default only when no case is ready; the one readiness fact modelled:
	// the Done channel of a context already observed as cancelled is closed, hence ready
	if !in.Blocking {
		for _, s := range in.States {
			if s.Dir == types.SendOnly {
				continue
			}
			ch := a.val(s.Chan, st)
			if x, ok := doneChanOwner(t, ch.S); ok {
				t.regArray("$g:canc", "(Array Int Bool)")
				t.assume(st.pc, sImp(sApp("select", t.lookup(st, "$g:canc"), x), sNot(fmt.Sprintf("(= %s (- 1))", idx))))
			}
		}
	}
	t.regArray("$g:sel", "(Array Int Int)")
	t.set(st, "$g:sel", sApp("store", t.lookup(st, "$g:sel"), sInt(int64(selectOrdinal(in))), idx))
	a.env[in] = Val{K: KTuple, T: in.Type(), Fields: fields}
	return st
}

// timerFact: receiving from a channel marks it "fired" (used for timer channels: fired(ch) => the timer elapsed).
func (a *Activation) timerFact(st *State, ch Val, chosen string) {
	t := a.t
	cur := t.lookup(st, "$timerfired")
	c := t.fresh("$timerfired@sel", "(Array Int Bool)")
	t.asserts = append(t.asserts, sImp(st.pc, sEq(c, sIte(chosen, sApp("store", cur, ch.S, tTrue), cur))))
	t.set(st, "$timerfired", c)
}

// recvOnly: signal channels (<-chan T: ctx.Done(), timer.C) carry no tokens of the verified thread.
func recvOnly(T types.Type) bool {
	c, ok := T.Underlying().(*types.Chan)
	return ok && c.Dir() == types.RecvOnly
}

// atomicModel: sync/atomic cells are sequentially consistent memory cells; stores are stamped with a ghost
// event so that contracts can state orderings (evtime("store:<field>", owner)).
func (a *Activation) atomicModel(name string, args []Val, st *State, pos token.Pos, sig *types.Signature) (*State, []Val, bool) {
	t := a.t
	t.assumed["sync/atomic operations are sequentially consistent"] = true
	recv := args[0]
	var prefix, ref string
	var k Kind
	switch {
	case strings.Contains(name, "(*Bool)"):
		k = KBool
	case strings.Contains(name, "(*Int32)"):
		k = KInt
	default:
		k = KRef
	}
	if recv.Loc != nil {
		prefix, ref = recv.Loc.Prefix, recv.S
	} else {
		switch k {
		case KBool:
			prefix = "sync/atomic.Bool"
		case KInt:
			prefix = "sync/atomic.Int32"
		default:
			prefix = "sync/atomic.Pointer"
		}
		ref = recv.S
	}
	// a cell shared with another thread changes according to the declared rely before we look at it
	cellName := ""
	if recv.Loc != nil {
		if i := strings.LastIndex(recv.Loc.Prefix, "."); i >= 0 {
			cellName = recv.Loc.Prefix[i+1:]
		}
	} else {
		for x := a; x != nil; x = x.callerA {
			if n, ok := x.allocNames[ref]; ok {
				cellName = n
				break
			}
		}
		if cellName == "" && a.fn != nil {
			// a captured variable: the free variable's name
			for i, fv := range a.fn.FreeVars {
				if v, ok := a.env[fv]; ok && v.S == ref {
					_ = i
					cellName = fv.Name()
				}
			}
		}
	}
	arr := prefix + ".v"
	if k == KBool {
		// atomic.Bool stores a uint32; we keep the boolean
		arr = prefix + ".v#b"
	}
	t.regArray(arr, "(Array Int "+sortOfKind(k)+")")
	a.applyRely(st, arr, ref, cellName, k)
	cur := sApp("select", t.lookup(st, arr), ref)
	a.nilCheck(recv, st, pos, "atomic receiver")
	field := prefix
	if i := strings.LastIndex(prefix, "."); i >= 0 {
		field = prefix[i+1:]
	}
	store := func(v string) {
		a.guardCheck(st, prefix, ref, pos, true)
		t.set(st, arr, sApp("store", t.lookup(st, arr), ref, v))
		a.ghostEvent(st, "store:"+field, ref)
	}
	switch {
	case strings.HasSuffix(name, ".Load"):
		v := Val{K: k, S: cur, T: sig.Results().At(0).Type()}
		return st, []Val{v}, true
	case strings.HasSuffix(name, ".Store"):
		a.escape(st, args[1])
		store(args[1].S)
		return st, nil, true
	case strings.HasSuffix(name, ".Add"):
		nv := "(+ " + cur + " " + args[1].S + ")"
		a.obligeSafety(st, "ovf", "atomic add", inRangeTerm(nv, sig.Results().At(0).Type()), pos)
		store(nv)
		return st, []Val{{K: KInt, S: nv, T: sig.Results().At(0).Type()}}, true
	case strings.HasSuffix(name, ".CompareAndSwap"):
		a.escape(st, args[2])
		ok := sEq(cur, args[1].S)
		if k == KBool {
			ok = sEq(cur, args[1].S)
		}
		okc := t.fresh("cas", "Bool")
		t.assume(st.pc, sEq(okc, ok))
		nv := sIte(okc, args[2].S, cur)
		t.set(st, arr, sApp("store", t.lookup(st, arr), ref, nv))
		a.ghostEvent(st, "cas:"+field, ref)
		return st, []Val{boolVal(okc)}, true
	}
	return st, nil, false
}

// selectOrdinal: 1-based position of a select statement among the selects of its function, in source order.
func selectOrdinal(in *ssa.Select) int {
	fn := in.Parent()
	n := 1
	for _, b := range fn.Blocks {
		for _, x := range b.Instrs {
			if s, ok := x.(*ssa.Select); ok && s != in && s.Pos() < in.Pos() {
				n++
			}
		}
	}
	return n
}

// applyRely: "rely <cell>: <formula over oldv, newv>" -- another thread may have changed the shared atomic cell;
// the new content satisfies the declared relation (the other thread's code is verified to guarantee it).
func (a *Activation) applyRely(st *State, arr, ref, cellName string, k Kind) {
	t := a.t
	con := a.rootContract()
	if con == nil || cellName == "" {
		return
	}
	for _, c := range con.Clauses {
		if c.Kind != "rely" || c.Name != cellName {
			continue
		}
		cur := sApp("select", t.lookup(st, arr), ref)
		nv := t.fresh("rely:"+cellName, sortOfKind(k))
		ra := a.rootAct()
		oldv := Val{K: k, S: cur}
		newv := Val{K: k, S: nv}
		if k == KRef {
			// typed view for field access in the relation: the contract names the pointee type via cast()
		}
		env := ra.exprEnv(st, map[string]Val{"oldv": oldv, "newv": newv})
		for kk, v := range a.params {
			if _, ok := env.vars[kk]; !ok {
				env.vars[kk] = v
			}
		}
		t.assume(st.pc, env.evalBool(c.Expr, c.Src))
		t.set(st, arr, sApp("store", t.lookup(st, arr), ref, nv))
		t.assumed["rely on the other thread for shared cell '"+cellName+"' ("+c.Src+"): "+c.Expr] = true
	}
}

// doneChanOwner: ch is the recorded result of x.Done() for some interface value x (a context): returns x.
func doneChanOwner(t *Task, ch string) (string, bool) {
	prefix := "(|$oret0I| (|$mth| "
	if !strings.HasPrefix(ch, prefix) {
		return "", false
	}
	rest := ch[len(prefix):]
	sp := strings.Index(rest, " ")
	if sp < 0 {
		return "", false
	}
	id, err := strconv.Atoi(rest[:sp])
	if err != nil || id != t.eng.methID("Done") {
		return "", false
	}
	// the receiver term: balanced from here to the matching ')' of ($mth id recv)
	r := rest[sp+1:]
	depth := 0
	for i, c := range r {
		switch c {
		case '(':
			depth++
		case ')':
			if depth == 0 {
				return strings.TrimSpace(r[:i]), true
			}
			depth--
		}
	}
	return "", false
}
