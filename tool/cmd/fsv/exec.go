package main

// Symbolic execution of go/ssa functions in passive (DAG) form.

import (
	"fmt"
	"go/constant"
	"go/token"
	"go/types"
	"sort"
	"strings"

	"golang.org/x/tools/go/ssa"
)

type deferRec struct {
	pc   string // block pc under which it was registered
	call *ssa.CallCommon
	args []Val // evaluated at defer time
	fnv  Val
	pos  token.Pos
}

type Activation struct {
	hintExclusive bool // set by hintedTypes: the dyntype hint excludes every other implementation
	t       *Task
	fn      *ssa.Function
	env     map[ssa.Value]Val
	depth   int
	defers  []deferRec
	entry   *State // state at function entry (for old())
	params  map[string]Val
	tsubst  map[*types.TypeParam]types.Type
	con     *FuncContract // contract being verified (root) or nil when inlined
	lets    map[string]Val
	root    bool
	arith   map[string]int
	loopOrd map[*ssa.BasicBlock]int
	results []Val
	callerA *Activation
	onwrite map[string][]Clause
	locked  bool
	loopModes map[string]*arrMode
	allocNames map[string]string
	ghostAssigned map[string]bool // ghost locals written by hooks (havocked at loop heads)
}

type retRec struct {
	st   *State
	vals []Val
}

func (a *Activation) subst(T types.Type) types.Type {
	if tp, ok := types.Unalias(T).(*types.TypeParam); ok && a.tsubst != nil {
		if r, ok := a.tsubst[tp]; ok {
			return r
		}
	}
	return T
}

// run executes fn from state st with the given arguments; returns the merged exit state and results.
func (t *Task) run(fn *ssa.Function, args []Val, freevars []Val, st *State, depth int, con *FuncContract, caller *Activation, tsubst map[*types.TypeParam]types.Type) (*State, []Val, *Activation) {
	a := &Activation{t: t, fn: fn, env: map[ssa.Value]Val{}, depth: depth, entry: st.clone(), params: map[string]Val{}, con: con,
		lets: map[string]Val{}, arith: map[string]int{}, loopOrd: map[*ssa.BasicBlock]int{}, callerA: caller, tsubst: tsubst, onwrite: map[string][]Clause{}}
	if con != nil && t.pendingLets != nil {
		for k, v := range t.pendingLets {
			a.lets[k] = v
		}
		t.pendingLets = nil
	}
	if len(fn.Blocks) == 0 {
		t.errorf("function %s has no body", fn)
		return st, nil, a
	}
	for i, p := range fn.Params {
		if i < len(args) {
			a.env[p] = args[i]
			a.params[p.Name()] = args[i]
		}
	}
	for i, fv := range fn.FreeVars {
		if i < len(freevars) {
			a.env[fv] = freevars[i]
			a.params[fv.Name()] = freevars[i]
		}
	}
	if con == nil {
		// inlined function with loop contracts of its own: its entry-state names (oldlet / ext) are needed by the invariants
		if own := a.conForLoops(); own != nil {
			hasLoop := false
			for _, c := range own.Clauses {
				if c.Kind == "loopinv" {
					hasLoop = true
				}
			}
			if hasLoop {
				env := a.exprEnv(st, nil)
				env.old = a.entry
				for _, c := range own.Clauses {
					if c.Kind == "oldlet" || c.Kind == "ext" {
						v := env.evalSrc(c.Expr, c.Src)
						a.lets[c.Name] = v
						env.vars[c.Name] = v
					}
				}
			}
		}
	}
	out, res := a.execBody(st)
	return out, res, a
}

type loopInfo struct {
	header *ssa.BasicBlock
	blocks map[*ssa.BasicBlock]bool
	latch  []*ssa.BasicBlock
	ord    int
}

func (a *Activation) findLoops() map[*ssa.BasicBlock]*loopInfo {
	loops := map[*ssa.BasicBlock]*loopInfo{}
	for _, b := range a.fn.Blocks {
		for _, s := range b.Succs {
			if s.Dominates(b) {
				li := loops[s]
				if li == nil {
					li = &loopInfo{header: s, blocks: map[*ssa.BasicBlock]bool{s: true}}
					loops[s] = li
				}
				li.latch = append(li.latch, b)
				// natural loop: nodes reaching b without passing s
				stack := []*ssa.BasicBlock{b}
				for len(stack) > 0 {
					x := stack[len(stack)-1]
					stack = stack[:len(stack)-1]
					if li.blocks[x] {
						continue
					}
					li.blocks[x] = true
					for _, p := range x.Preds {
						stack = append(stack, p)
					}
				}
			}
		}
	}
	// ordinals by source position of header (textual order); fall back to block index
	var hs []*ssa.BasicBlock
	for h := range loops {
		hs = append(hs, h)
	}
	sort.Slice(hs, func(i, j int) bool {
		pi, pj := blockPos(hs[i]), blockPos(hs[j])
		if pi != pj && pi.IsValid() && pj.IsValid() {
			return pi < pj
		}
		return hs[i].Index < hs[j].Index
	})
	for i, h := range hs {
		loops[h].ord = i
	}
	return loops
}

func blockPos(b *ssa.BasicBlock) token.Pos {
	best := token.NoPos
	for _, in := range b.Instrs {
		if p := in.Pos(); p.IsValid() && (best == token.NoPos || p < best) {
			best = p
		}
	}
	return best
}

func (a *Activation) rpo() []*ssa.BasicBlock {
	seen := map[*ssa.BasicBlock]bool{}
	var post []*ssa.BasicBlock
	var dfs func(b *ssa.BasicBlock)
	dfs = func(b *ssa.BasicBlock) {
		seen[b] = true
		for _, s := range b.Succs {
			if !seen[s] && !s.Dominates(b) {
				dfs(s)
			}
		}
		post = append(post, b)
	}
	dfs(a.fn.Blocks[0])
	for i, j := 0, len(post)-1; i < j; i, j = i+1, j-1 {
		post[i], post[j] = post[j], post[i]
	}
	// A plain DFS post-order reversed is a topological order of the DAG without back edges
	// only if we ignore back edges during DFS as done above.
	return post
}

type inEdge struct {
	from *ssa.BasicBlock
	pc   string
	st   *State
}

func (a *Activation) execBody(st0 *State) (*State, []Val) {
	t := a.t
	fn := a.fn
	loops := a.findLoops()
	order := a.rpo()
	in := map[*ssa.BasicBlock][]inEdge{}
	var rets []retRec
	in[fn.Blocks[0]] = []inEdge{{nil, st0.pc, st0}}
	for _, b := range order {
		if b == fn.Recover {
			continue
		}
		edges := in[b]
		if len(edges) == 0 {
			continue
		}
		var mes []mergeEdge
		for _, e := range edges {
			mes = append(mes, mergeEdge{e.pc, e.st})
		}
		st := t.mergeStates(mes)
		if st == nil {
			continue
		}
		var livePreds []inEdge
		for _, e := range edges {
			if e.st != nil && !e.st.dead && e.pc != tFalse {
				livePreds = append(livePreds, e)
			}
		}
		li := loops[b]
		// phis
		idx := 0
		for idx < len(b.Instrs) {
			phi, ok := b.Instrs[idx].(*ssa.Phi)
			if !ok {
				break
			}
			var pcs []string
			var vs []Val
			for _, e := range livePreds {
				for pi, p := range b.Preds {
					if p == e.from {
						pcs = append(pcs, e.pc)
						vs = append(vs, a.val(phi.Edges[pi], e.st))
						break
					}
				}
			}
			if len(vs) > 0 {
				a.env[phi] = t.mergeVals(pcs, vs, a.fn.Name()+"."+phiName(phi))
			}
			idx++
		}
		if li != nil {
			st = a.loopHead(li, b, st)
			if st == nil {
				continue
			}
		}
		// body
		alive := true
		for ; idx < len(b.Instrs); idx++ {
			instr := b.Instrs[idx]
			switch in2 := instr.(type) {
			case *ssa.If:
				c := a.val(in2.Cond, st)
				pcT := t.namedPc(sAnd(st.pc, c.S))
				pcF := t.namedPc(sAnd(st.pc, sNot(c.S)))
				a.flow(b, b.Succs[0], pcT, st, loops, in)
				a.flow(b, b.Succs[1], pcF, st, loops, in)
				alive = false
			case *ssa.Jump:
				a.flow(b, b.Succs[0], st.pc, st, loops, in)
				alive = false
			case *ssa.Return:
				var vs []Val
				for _, r := range in2.Results {
					vs = append(vs, a.val(r, st))
				}
				rets = append(rets, retRec{st, vs})
				alive = false
			case *ssa.Panic:
				a.panicSite(in2, st)
				alive = false
			default:
				st = a.step(instr, st)
				if st == nil || st.dead {
					alive = false
				}
			}
			if !alive {
				break
			}
		}
	}
	if len(rets) == 0 {
		return &State{pc: tFalse, heap: map[string]string{}, base: st0.base, dead: true}, nil
	}
	var mes []mergeEdge
	var pcs []string
	for _, r := range rets {
		mes = append(mes, mergeEdge{r.st.pc, r.st})
		pcs = append(pcs, r.st.pc)
	}
	out := t.mergeStates(mes)
	if out == nil {
		return &State{pc: tFalse, heap: map[string]string{}, base: st0.base, dead: true}, nil
	}
	nres := len(rets[0].vals)
	res := make([]Val, nres)
	for i := 0; i < nres; i++ {
		var vs []Val
		var ps []string
		for _, r := range rets {
			if r.st.dead || r.st.pc == tFalse {
				continue
			}
			vs = append(vs, r.vals[i])
			ps = append(ps, r.st.pc)
		}
		res[i] = t.mergeVals(ps, vs, fmt.Sprintf("%s.ret%d", fn.Name(), i))
	}
	return out, res
}

func phiName(p *ssa.Phi) string {
	if p.Comment != "" {
		return p.Comment
	}
	return p.Name()
}

func (t *Task) namedPc(term string) string {
	if term == tTrue || term == tFalse || !strings.HasPrefix(term, "(") {
		return term
	}
	c := t.fresh("pc", "Bool")
	t.asserts = append(t.asserts, sEq(c, term))
	return c
}

func (a *Activation) flow(from, to *ssa.BasicBlock, pc string, st *State, loops map[*ssa.BasicBlock]*loopInfo, in map[*ssa.BasicBlock][]inEdge) {
	if to.Dominates(from) {
		// back edge: prove the invariant with the values flowing along this edge
		if li := loops[to]; li != nil {
			a.loopBack(li, from, to, pc, st)
		}
		return
	}
	n := st.clone()
	n.pc = pc
	in[to] = append(in[to], inEdge{from, pc, n})
}

// ---- instruction semantics ----

func (a *Activation) val(v ssa.Value, st *State) Val {
	t := a.t
	if x, ok := a.env[v]; ok {
		return x
	}
	switch v := v.(type) {
	case *ssa.Const:
		return a.constVal(v)
	case *ssa.Function:
		fn := v
		return Val{K: KFunc, T: v.Type(), S: t.funcID(fn), Clo: &Closure{Fn: fn}}
	case *ssa.Global:
		// address of a global: cell with fixed ref per global
		return Val{K: KRef, T: v.Type(), S: sInt(int64(a.t.eng.globalRef(v))), Loc: &Loc{Prefix: "global:" + v.Pkg.Pkg.Path() + "." + v.Name()}}
	case *ssa.Builtin:
		return Val{K: KFunc, T: v.Type(), S: "0"}
	}
	t.errorf("%s: value %s (%T) used before definition", a.fn, v.Name(), v)
	return t.freshValue(st.pc, "undef", v.Type())
}

func (e *Eng) globalRef(g *ssa.Global) int {
	return 1
}

func (t *Task) funcID(fn *ssa.Function) string {
	return t.funcIDByName(fullName(fn))
}

// funcIDByName: the identity of a function's code: positive, kind "static", distinct from every other function's.
func (t *Task) funcIDByName(full string) string {
	name := "fn:" + full
	c := t.declare(name, "Int")
	key := "fnnz:" + name
	if !t.pureDone[key] {
		t.pureDone[key] = true
		t.nfn++
		fi := t.declareFun("$fnidx", []string{"Int"}, "Int")
		t.lateFacts = append(t.lateFacts, sAnd("(> "+c+" 0)", sEq(sApp(t.fkind(), c), "1"), sEq(sApp(fi, c), sInt(int64(t.nfn)))))
		t.fnNames = append(t.fnNames, full)
		if t.useReentr {
			t.reentrantFact(full)
		}
	}
	return c
}

func (a *Activation) constVal(c *ssa.Const) Val {
	t := a.t
	T := a.subst(c.Type())
	k := kindOfType(T)
	if c.Value == nil {
		z := t.zeroValue(T)
		return z
	}
	switch k {
	case KBool:
		if constant.BoolVal(c.Value) {
			return Val{K: KBool, S: tTrue, T: T}
		}
		return Val{K: KBool, S: tFalse, T: T}
	case KInt:
		s := c.Value.ExactString()
		if c.Value.Kind() == constant.Float {
			if iv := constant.ToInt(c.Value); iv.Kind() == constant.Int {
				s = iv.ExactString()
			}
		}
		return Val{K: KInt, S: t.intLit(s), T: T}
	case KF64:
		return Val{K: KF64, S: realLit(c.Value), T: T}
	case KF32:
		f, _ := constant.Float32Val(c.Value)
		if !t.bv {
			return Val{K: KF32, S: realLit(constant.MakeFloat64(float64(f))), T: T}
		}
		return Val{K: KF32, S: f32Lit(f), T: T}
	case KStr:
		return Val{K: KStr, S: sInt(int64(t.eng.strID(constant.StringVal(c.Value)))), T: T}
	}
	t.errorf("unsupported constant %s of type %s", c, T)
	return Val{K: k, S: "0", T: T}
}

func (t *Task) intLit(dec string) string {
	if t.bv {
		return bvLit(dec)
	}
	return sBigInt(dec)
}

func realLit(v constant.Value) string {
	// exact rational
	if v.Kind() == constant.Int {
		s := v.ExactString()
		if strings.HasPrefix(s, "-") {
			return "(- " + s[1:] + ".0)"
		}
		return s + ".0"
	}
	num := constant.Num(v)
	den := constant.Denom(v)
	ns, ds := num.ExactString(), den.ExactString()
	neg := strings.HasPrefix(ns, "-")
	if neg {
		ns = ns[1:]
	}
	r := "(/ " + ns + ".0 " + ds + ".0)"
	if ds == "1" {
		r = ns + ".0"
	}
	if neg {
		r = "(- " + r + ")"
	}
	return r
}

func (a *Activation) step(instr ssa.Instruction, st *State) *State {
	t := a.t
	switch in := instr.(type) {
	case *ssa.DebugRef:
		return st
	case *ssa.BinOp:
		a.env[in] = a.binop(in, st)
	case *ssa.UnOp:
		return a.unop(in, st)
	case *ssa.Alloc:
		T := derefType(in.Type())
		if arr, ok := T.Underlying().(*types.Array); ok {
			// arrays live in the element arrays of their element type, keyed by the array's reference
			ref := a.allocRef(st, "array", in.Comment)
			st.private = append(st.private, privRef{ref, "elem:" + prefixFor(arr.Elem())})
			a.env[in] = Val{K: KRef, T: in.Type(), S: ref}
			return st
		}
		ref := a.allocRef(st, prefixFor(T), in.Comment)
		if a.allocNames == nil {
			a.allocNames = map[string]string{}
		}
		a.allocNames[ref] = in.Comment
		st.private = append(st.private, privRef{ref, prefixFor(T)})
		// zero-initialise
		t.storeAt(st, prefixFor(T), "", ref, "", T, t.zeroValue(T))
		a.zeroAtomicBools(st, prefixFor(T), ref, T, 0)
		if typeKey(T) == "sync.Mutex" {
			// the zero value of a mutex is unlocked
			t.regArray("$held", "(Array Int Bool)")
			t.set(st, "$held", sApp("store", t.lookup(st, "$held"), ref, tFalse))
		}
		a.env[in] = Val{K: KRef, T: in.Type(), S: ref}
	case *ssa.FieldAddr:
		x := a.val(in.X, st)
		ST := derefType(in.X.Type())
		s := structOf(ST)
		f := s.Field(in.Field)
		prefix, ref, idx := locOf(x, ST)
		a.nilCheck(x, st, in.Pos(), "field "+f.Name())
		a.env[in] = Val{K: KRef, T: in.Type(), S: ref, Loc: &Loc{Prefix: prefix + "." + f.Name(), Idx: idx}}
	case *ssa.Field:
		x := a.val(in.X, st)
		if x.K != KStruct || in.Field >= len(x.Fields) {
			t.errorf("%s: Field on non-struct value", a.fn)
			a.env[in] = t.freshValue(st.pc, "field", in.Type())
		} else {
			a.env[in] = x.Fields[in.Field]
		}
	case *ssa.Store:
		addr := a.val(in.Addr, st)
		v := a.val(in.Val, st)
		T := derefType(in.Addr.Type())
		a.storeThrough(st, addr, T, v, in.Pos())
	case *ssa.IndexAddr:
		a.env[in] = a.indexAddr(in, st)
	case *ssa.Index:
		t.errorf("%s: Index on array value: outside the subset", a.fn)
		a.env[in] = t.freshValue(st.pc, "index", in.Type())
	case *ssa.Extract:
		tu := a.val(in.Tuple, st)
		if in.Index < len(tu.Fields) {
			a.env[in] = tu.Fields[in.Index]
		} else {
			t.errorf("%s: bad Extract", a.fn)
			a.env[in] = t.freshValue(st.pc, "extract", in.Type())
		}
	case *ssa.Call:
		return a.call(in, st)
	case *ssa.MakeClosure:
		fn := in.Fn.(*ssa.Function)
		var bs []Val
		for _, b := range in.Bindings {
			bv := a.val(b, st)
			bs = append(bs, bv)
			a.escape(st, bv)
		}
		id := t.fresh("clo:"+fn.Name(), "Int")
		t.assume(st.pc, "(> "+id+" 0)")
		t.assume(st.pc, sEq(sApp(t.fkind(), id), "2"))
		t.assume(st.pc, sEq(sApp(t.cloFn(), id), t.funcID(fn)))
		for bi, bv := range bs {
			if bv.isScalar() && bv.K != KBool && bv.K != KF32 && bv.K != KF64 {
				bf := t.declareFun(fmt.Sprintf("$clobind%d", bi), []string{"Int"}, "Int")
				t.assume(st.pc, sEq(sApp(bf, id), bv.S))
			}
		}
		a.env[in] = Val{K: KFunc, T: in.Type(), S: id, Clo: &Closure{Fn: fn, Bindings: bs}}
	case *ssa.MakeInterface:
		a.env[in] = a.makeInterface(in, st)
	case *ssa.TypeAssert:
		a.env[in] = a.typeAssert(in, st)
	case *ssa.ChangeType:
		v := a.val(in.X, st)
		v.T = in.Type()
		a.env[in] = v
	case *ssa.ChangeInterface:
		v := a.val(in.X, st)
		v.T = in.Type()
		a.env[in] = v
	case *ssa.Convert:
		a.env[in] = a.convert(in, st)
	case *ssa.Slice:
		a.env[in] = a.sliceOp(in, st)
	case *ssa.MakeSlice:
		l := a.val(in.Len, st)
		ref := a.allocRef(st, "slice", "makeslice")
		ET := in.Type().Underlying().(*types.Slice).Elem()
		st.private = append(st.private, privRef{ref, "elem:" + prefixFor(ET)})
		a.obligeSafety(st, "bounds", "makeslice", "(>= "+l.S+" 0)", in.Pos())
		// zero elements: element arrays of a fresh ref are constrained lazily: assume zero for scalar leaves
		for _, lf := range t.leavesOf(ET) {
			name := "elem:" + prefixFor(ET) + lf.path
			es := sortOfKind(lf.kind)
			t.regArray(name, "(Array Int (Array Int "+es+"))")
			z := t.zeroValue(lf.typ)
			if lf.kind == KRef || lf.kind == KInt || lf.kind == KIface || lf.kind == KFunc || lf.kind == KStr || lf.kind == KBool {
				cur := t.lookup(st, name)
				nt := sApp("store", cur, ref, "((as const (Array Int "+es+")) "+z.S+")")
				c := t.fresh(name+"@s", t.sortOfArray(name))
				t.asserts = append(t.asserts, sEq(c, nt))
				st.heap[name] = c
			}
		}
		a.env[in] = Val{K: KSlice, T: in.Type(), Fields: []Val{{K: KRef, S: ref}, {K: KInt, S: l.S, T: types.Typ[types.Int]}}}
	case *ssa.MakeChan:
		ref := a.allocRef(st, "chan", "makechan")
		sz := a.val(in.Size, st)
		a.chanArrays()
		t.set(st, "$chancap", sApp("store", t.lookup(st, "$chancap"), ref, sz.S))
		t.set(st, "$tok", sApp("store", t.lookup(st, "$tok"), ref, "0"))
		t.set(st, "$sends", sApp("store", t.lookup(st, "$sends"), ref, "0"))
		t.set(st, "$chanclosed", sApp("store", t.lookup(st, "$chanclosed"), ref, tFalse))
		a.env[in] = Val{K: KRef, T: in.Type(), S: ref}
	case *ssa.MakeMap:
		ref := a.allocRef(st, "map", "makemap")
		a.env[in] = Val{K: KRef, T: in.Type(), S: ref}
	case *ssa.Defer:
		d := deferRec{pc: st.pc, call: &in.Call, pos: in.Pos()}
		for _, x := range in.Call.Args {
			d.args = append(d.args, a.val(x, st))
		}
		if !in.Call.IsInvoke() {
			d.fnv = a.val(in.Call.Value, st)
		} else {
			d.fnv = a.val(in.Call.Value, st)
		}
		a.defers = append(a.defers, d)
	case *ssa.RunDefers:
		for i := len(a.defers) - 1; i >= 0; i-- {
			d := a.defers[i]
			st = a.runDeferred(d, st)
			if st == nil {
				return nil
			}
		}
	case *ssa.Go:
		return a.goStmt(in, st)
	case *ssa.Send:
		return a.send(in, st)
	case *ssa.Select:
		return a.selectStmt(in, st)
	case *ssa.Range, *ssa.Next, *ssa.Lookup, *ssa.MapUpdate:
		return a.mapOps(instr, st)
	case *ssa.SliceToArrayPointer, *ssa.MultiConvert:
		t.errorf("%s: %T outside the subset", a.fn, instr)
	default:
		t.errorf("%s: unsupported instruction %T (%s)", a.fn, instr, instr)
	}
	return st
}

func (t *Task) cloFn() string {
	return t.declareFun("$clofn", []string{"Int"}, "Int")
}

func (a *Activation) allocRef(st *State, prefix, hint string) string {
	t := a.t
	t.regArray("$now", "Int")
	now := t.lookup(st, "$now")
	r := t.fresh("new:"+hint, "Int")
	age := t.declareFun("$age", []string{"Int"}, "Int")
	t.assume(st.pc, sAnd("(> "+r+" 1)", sEq(sApp(age, r), now)))
	t.set(st, "$now", "(+ "+now+" 1)")
	return r
}

// wfRef assumes that a reference obtained from the pre-existing heap / inputs is older than any later allocation.
func (a *Activation) wfRef(st *State, v Val) {
	t := a.t
	switch v.K {
	case KRef:
		if v.Loc != nil {
			return
		}
		t.regArray("$now", "Int")
		age := t.declareFun("$age", []string{"Int"}, "Int")
		now := t.lookup(st, "$now")
		t.assume(st.pc, sOr(sEq(v.S, "0"), sAnd("(> "+v.S+" 1)", "(< "+sApp(age, v.S)+" "+now+")")))
	case KStruct, KTuple:
		for _, f := range v.Fields {
			a.wfRef(st, f)
		}
	case KSlice:
		if len(v.Fields) > 0 {
			a.wfRef(st, Val{K: KRef, S: v.Fields[0].S})
		}
	}
}

func (a *Activation) escape(st *State, v Val) {
	switch v.K {
	case KRef:
		for i, p := range st.private {
			if p.ref == v.S {
				st.private = append(st.private[:i:i], st.private[i+1:]...)
				break
			}
		}
	case KStruct, KTuple, KSlice:
		for _, f := range v.Fields {
			a.escape(st, f)
		}
	case KFunc:
		if v.Clo != nil {
			for _, b := range v.Clo.Bindings {
				a.escape(st, b)
			}
		}
	}
}

func (a *Activation) nilCheck(x Val, st *State, pos token.Pos, what string) {
	if x.Loc != nil {
		return
	}
	for _, p := range st.private {
		if p.ref == x.S {
			return
		}
	}
	a.obligeSafety(st, "nil", what, sNot(sEq(x.S, "0")), pos)
}

// obligeSafety records a no-panic obligation and then assumes it.
func (a *Activation) obligeSafety(st *State, kind, what, goal string, pos token.Pos) {
	t := a.t
	if goal == tTrue {
		return
	}
	key := kind
	a.arith[key]++
	name := fmt.Sprintf("%s#%s[%d]", fullName(a.fn), kind, a.arith[key])
	o := t.oblige(kind, name, "", st.pc, goal, posStr(t.eng.fset, pos), what)
	o.Fn = fullName(a.fn)
	t.assume(st.pc, goal)
}

func (a *Activation) storeThrough(st *State, addr Val, T types.Type, v Val, pos token.Pos) {
	t := a.t
	prefix, ref, idx := locOf(addr, T)
	a.nilCheck(addr, st, pos, "store")
	a.guardCheck(st, prefix, ref, pos, true)
	a.escape(st, v)
	a.frozenCheck(st, prefix, ref, pos)
	t.storeAt(st, prefix, "", ref, idx, T, v)
	a.afterWrite(st, prefix, ref)
}

// zeroAtomicBools: the boolean view of sync/atomic.Bool cells starts out false.
func (a *Activation) zeroAtomicBools(st *State, prefix, ref string, T types.Type, depth int) {
	t := a.t
	if depth > 4 {
		return
	}
	if typeKey(T) == "sync/atomic.Bool" {
		arr := prefix + ".v#b"
		t.regArray(arr, "(Array Int Bool)")
		t.set(st, arr, sApp("store", t.lookup(st, arr), ref, tFalse))
		return
	}
	s := structOf(T)
	if s == nil {
		return
	}
	for i := 0; i < s.NumFields(); i++ {
		f := s.Field(i)
		if f.Name() == "_" || kindOfType(f.Type()) != KStruct {
			continue
		}
		a.zeroAtomicBools(st, prefix+"."+f.Name(), ref, f.Type(), depth+1)
	}
}

// frozenCheck: configuration fields declared frozen may only be written on objects that are still private
// (being constructed); anything else invalidates the frame assumption used across callbacks.
func (a *Activation) frozenCheck(st *State, prefix, ref string, pos token.Pos) {
	t := a.t
	if !t.eng.con.Frozen[prefix] || a.hasClause("builder") {
		return
	}
	for _, p := range st.private {
		if p.ref == ref {
			return
		}
	}
	a.arith["frozen"]++
	name := fmt.Sprintf("%s#frozen[%s:%d]", fullName(a.fn), shortName(prefix), a.arith["frozen"])
	// allowed only on objects allocated by the function under verification itself (still under construction)
	t.regArray("$now", "Int")
	age := t.declareFun("$age", []string{"Int"}, "Int")
	now0 := t.lookup(a.rootAct().entry, "$now")
	o := t.oblige("frozen", name, "C14.frozen", st.pc, "(>= "+sApp(age, ref)+" "+now0+")", posStr(t.eng.fset, pos), "store to frozen field "+prefix+" of an object that already existed on entry")
	o.Fn = fullName(a.fn)
}

func (a *Activation) loadThrough(st *State, addr Val, T types.Type, pos token.Pos) Val {
	t := a.t
	prefix, ref, idx := locOf(addr, T)
	a.nilCheck(addr, st, pos, "load")
	a.guardCheck(st, prefix, ref, pos, false)
	v := t.load(st, prefix, ref, idx, T)
	a.wfRef(st, v)
	for _, m := range t.eng.con.Monitors {
		if m.PtrMtx && prefix == m.Pkg+"."+m.Type+"."+m.Mutex {
			v.Owner = ref
			v.OwnerT = m.Pkg + "." + m.Type
		}
	}
	return v
}

func (a *Activation) unop(in *ssa.UnOp, st *State) *State {
	t := a.t
	x := a.val(in.X, st)
	switch in.Op {
	case token.MUL: // load
		T := derefType(in.X.Type())
		if g, ok := in.X.(*ssa.Global); ok {
			a.env[in] = a.loadGlobal(g, st)
			return st
		}
		a.env[in] = a.loadThrough(st, x, T, in.Pos())
	case token.NOT:
		a.env[in] = Val{K: KBool, S: sNot(x.S), T: in.Type()}
	case token.SUB:
		switch x.K {
		case KInt:
			r := a.arithInt("neg", in.Type(), "(- "+x.S+")", st, in.Pos())
			a.env[in] = Val{K: KInt, S: r, T: in.Type()}
		case KF64:
			a.env[in] = Val{K: KF64, S: "(- " + x.S + ")", T: in.Type()}
		case KF32:
			if !t.bv {
				a.env[in] = Val{K: KF32, S: "(- " + x.S + ")", T: in.Type()}
			} else {
				a.env[in] = Val{K: KF32, S: "(fp.neg " + x.S + ")", T: in.Type()}
			}
		default:
			t.errorf("%s: negation of %s", a.fn, x.K)
		}
	case token.ARROW:
		return a.recv(in, st)
	case token.XOR:
		t.errorf("%s: bitwise complement outside the subset", a.fn)
		a.env[in] = t.freshValue(st.pc, "xor", in.Type())
	default:
		t.errorf("%s: unsupported unary op %s", a.fn, in.Op)
	}
	return st
}

func (a *Activation) loadGlobal(g *ssa.Global, st *State) Val {
	t := a.t
	T := derefType(g.Type())
	name := "g:" + g.Pkg.Pkg.Path() + "." + g.Name()
	k := kindOfType(T)
	if k == KStruct || k == KSlice || k == KTuple {
		// over-approximation: every read of a composite package-level variable yields an unconstrained value
		return t.freshValue(st.pc, name, T)
	}
	c := t.declare(name, sortOfKind(k))
	t.assumed["package-level variable "+g.Pkg.Pkg.Path()+"."+g.Name()+" is never reassigned after init"] = true
	if k == KIface || k == KRef {
		// error sentinels created by errors.New are non-nil
		if strings.HasPrefix(g.Name(), "Err") {
			key := "gnz:" + name
			if !t.pureDone[key] {
				t.pureDone[key] = true
				t.asserts = append(t.asserts, sNot(sEq(c, "0")))
			}
		}
	}
	v := Val{K: k, S: c, T: T}
	return v
}

// arithInt emits the no-overflow obligation for an integer result and returns the term.
func (a *Activation) arithInt(op string, T types.Type, term string, st *State, pos token.Pos) string {
	T = a.subst(T)
	if _, ok := types.Unalias(T).(*types.TypeParam); ok {
		// unresolved type parameter with integer core: treat as int64
		T = types.Typ[types.Int64]
	}
	goal := inRangeTerm(term, T)
	if goal != tTrue {
		a.obligeSafety(st, "ovf", op, goal, pos)
	}
	return term
}

func (a *Activation) binop(in *ssa.BinOp, st *State) Val {
	t := a.t
	x := a.val(in.X, st)
	y := a.val(in.Y, st)
	T := in.Type()
	switch in.Op {
	case token.EQL, token.NEQ:
		eq := a.valEq(x, y)
		if in.Op == token.NEQ {
			eq = sNot(eq)
		}
		return Val{K: KBool, S: eq, T: T}
	case token.LAND, token.LOR:
		// not generated by SSA (short-circuit is control flow)
	}
	switch x.K {
	case KBool:
		switch in.Op {
		case token.AND:
			return Val{K: KBool, S: sAnd(x.S, y.S), T: T}
		case token.OR:
			return Val{K: KBool, S: sOr(x.S, y.S), T: T}
		}
	case KInt:
		if t.bv {
			return a.binopBV(in, x, y, st)
		}
		switch in.Op {
		case token.ADD:
			return Val{K: KInt, S: a.arithInt("add", T, "(+ "+x.S+" "+y.S+")", st, in.Pos()), T: T}
		case token.SUB:
			return Val{K: KInt, S: a.arithInt("sub", T, "(- "+x.S+" "+y.S+")", st, in.Pos()), T: T}
		case token.MUL:
			return Val{K: KInt, S: a.arithInt("mul", T, "(* "+x.S+" "+y.S+")", st, in.Pos()), T: T}
		case token.QUO:
			a.obligeSafety(st, "div0", "division", sNot(sEq(y.S, "0")), in.Pos())
			return Val{K: KInt, S: a.arithInt("quo", T, sApp(t.goDiv(), x.S, y.S), st, in.Pos()), T: T}
		case token.REM:
			a.obligeSafety(st, "div0", "remainder", sNot(sEq(y.S, "0")), in.Pos())
			return Val{K: KInt, S: sApp(t.goMod(), x.S, y.S), T: T}
		case token.LSS:
			return Val{K: KBool, S: "(< " + x.S + " " + y.S + ")", T: T}
		case token.LEQ:
			return Val{K: KBool, S: "(<= " + x.S + " " + y.S + ")", T: T}
		case token.GTR:
			return Val{K: KBool, S: "(> " + x.S + " " + y.S + ")", T: T}
		case token.GEQ:
			return Val{K: KBool, S: "(>= " + x.S + " " + y.S + ")", T: T}
		}
	case KF64:
		switch in.Op {
		case token.ADD:
			if t.isIntReal(x.S) && t.isIntReal(y.S) {
				return Val{K: KF64, S: a.exactInt("(+ "+x.S+" "+y.S+")", st, in.Pos()), T: T}
			}
			return Val{K: KF64, S: t.rnd64("(+ "+x.S+" "+y.S+")", st), T: T}
		case token.SUB:
			if t.isIntReal(x.S) && t.isIntReal(y.S) {
				return Val{K: KF64, S: a.exactInt("(- "+x.S+" "+y.S+")", st, in.Pos()), T: T}
			}
			return Val{K: KF64, S: t.rnd64("(- "+x.S+" "+y.S+")", st), T: T}
		case token.MUL:
			return Val{K: KF64, S: t.rnd64(t.realMul(x.S, y.S, st), st), T: T}
		case token.QUO:
			return Val{K: KF64, S: t.rnd64(t.realDiv(x.S, y.S, st), st), T: T}
		case token.LSS:
			return Val{K: KBool, S: "(< " + x.S + " " + y.S + ")", T: T}
		case token.LEQ:
			return Val{K: KBool, S: "(<= " + x.S + " " + y.S + ")", T: T}
		case token.GTR:
			return Val{K: KBool, S: "(> " + x.S + " " + y.S + ")", T: T}
		case token.GEQ:
			return Val{K: KBool, S: "(>= " + x.S + " " + y.S + ")", T: T}
		}
	case KF32:
		if !t.bv {
			switch in.Op {
			case token.LSS:
				return Val{K: KBool, S: "(< " + x.S + " " + y.S + ")", T: T}
			case token.LEQ:
				return Val{K: KBool, S: "(<= " + x.S + " " + y.S + ")", T: T}
			case token.GTR:
				return Val{K: KBool, S: "(> " + x.S + " " + y.S + ")", T: T}
			case token.GEQ:
				return Val{K: KBool, S: "(>= " + x.S + " " + y.S + ")", T: T}
			}
			a.modeUnreachable(st, "float32 arithmetic outside 'mode bv64'", in.Pos())
			return t.freshValue(st.pc, "f32op", T)
		}
		switch in.Op {
		case token.ADD:
			return Val{K: KF32, S: "(fp.add RNE " + x.S + " " + y.S + ")", T: T}
		case token.SUB:
			return Val{K: KF32, S: "(fp.sub RNE " + x.S + " " + y.S + ")", T: T}
		case token.MUL:
			return Val{K: KF32, S: "(fp.mul RNE " + x.S + " " + y.S + ")", T: T}
		case token.QUO:
			return Val{K: KF32, S: "(fp.div RNE " + x.S + " " + y.S + ")", T: T}
		case token.LSS:
			return Val{K: KBool, S: "(fp.lt " + x.S + " " + y.S + ")", T: T}
		case token.LEQ:
			return Val{K: KBool, S: "(fp.leq " + x.S + " " + y.S + ")", T: T}
		case token.GTR:
			return Val{K: KBool, S: "(fp.gt " + x.S + " " + y.S + ")", T: T}
		case token.GEQ:
			return Val{K: KBool, S: "(fp.geq " + x.S + " " + y.S + ")", T: T}
		}
	case KStr:
		if in.Op == token.ADD {
			c := t.declareFun("$strcat", []string{"Int", "Int"}, "Int")
			return Val{K: KStr, S: sApp(c, x.S, y.S), T: T}
		}
	}
	t.errorf("%s: unsupported binary op %s on %s", a.fn, in.Op, x.K)
	return t.freshValue(st.pc, "binop", T)
}

func (t *Task) goDiv() string {
	t.define("(define-fun go_div ((a Int) (b Int)) Int (ite (>= a 0) (ite (> b 0) (div a b) (- (div a (- b)))) (ite (> b 0) (- (div (- a) b)) (div (- a) (- b)))))", "go_div")
	return "go_div"
}

func (t *Task) goMod() string {
	t.define("(define-fun go_mod ((a Int) (b Int)) Int (ite (>= a 0) (mod a b) (- (mod (- a) b))))", "go_mod")
	return "go_mod"
}

// valEq: Go equality on values
func (a *Activation) valEq(x, y Val) string {
	switch x.K {
	case KStruct, KTuple:
		var cs []string
		for i := range x.Fields {
			if i < len(y.Fields) {
				cs = append(cs, a.valEq(x.Fields[i], y.Fields[i]))
			}
		}
		return sAnd(cs...)
	case KSlice:
		// only comparison with nil is legal
		return sEq(x.Fields[0].S, y.fieldOrZero(0))
	case KF32:
		if !gBV {
			return sEq(x.S, y.S)
		}
		return "(fp.eq " + x.S + " " + y.S + ")"
	case KFunc:
		return sEq(x.S, y.S)
	}
	if y.K == KSlice {
		return sEq(y.Fields[0].S, x.S)
	}
	return sEq(x.S, y.S)
}

func (v Val) fieldOrZero(i int) string {
	if i < len(v.Fields) {
		return v.Fields[i].S
	}
	if v.S != "" {
		return v.S
	}
	return "0"
}

func (a *Activation) indexAddr(in *ssa.IndexAddr, st *State) Val {
	t := a.t
	x := a.val(in.X, st)
	i := a.val(in.Index, st)
	switch xt := in.X.Type().Underlying().(type) {
	case *types.Slice:
		ET := xt.Elem()
		a.obligeSafety(st, "bounds", "index", sAnd("(<= 0 "+i.S+")", "(< "+i.S+" "+x.Fields[1].S+")"), in.Pos())
		return Val{K: KRef, T: in.Type(), S: x.Fields[0].S, Loc: &Loc{Prefix: "elem:" + prefixFor(ET), Idx: i.S}}
	case *types.Pointer:
		if arr, ok := xt.Elem().Underlying().(*types.Array); ok {
			ET := arr.Elem()
			a.obligeSafety(st, "bounds", "index", sAnd("(<= 0 "+i.S+")", fmt.Sprintf("(< %s %d)", i.S, arr.Len())), in.Pos())
			if x.Loc != nil {
				t.errorf("%s: index into interior array: outside the subset", a.fn)
			}
			return Val{K: KRef, T: in.Type(), S: x.S, Loc: &Loc{Prefix: "elem:" + prefixFor(ET), Idx: i.S}}
		}
	}
	t.errorf("%s: unsupported IndexAddr on %s", a.fn, in.X.Type())
	return Val{K: KRef, T: in.Type(), S: "0"}
}

func (a *Activation) sliceOp(in *ssa.Slice, st *State) Val {
	t := a.t
	x := a.val(in.X, st)
	if in.Low == nil && in.High == nil && in.Max == nil {
		if _, ok := in.X.Type().Underlying().(*types.Slice); ok {
			return x
		}
		// pointer to array -> slice (variadic args): new slice over the array's element arrays
		if p, ok := in.X.Type().Underlying().(*types.Pointer); ok {
			if arr, ok := p.Elem().Underlying().(*types.Array); ok {
				return Val{K: KSlice, T: in.Type(), Fields: []Val{{K: KRef, S: x.S}, {K: KInt, S: sInt(arr.Len()), T: types.Typ[types.Int]}}}
			}
		}
	}
	t.errorf("%s: slicing expression outside the subset", a.fn)
	return t.freshValue(st.pc, "slice", in.Type())
}

func (a *Activation) makeInterface(in *ssa.MakeInterface, st *State) Val {
	t := a.t
	x := a.val(in.X, st)
	XT := in.X.Type()
	return t.mkIface(st, x, XT, in.Type(), a)
}

func (t *Task) ifTag() string { return t.declareFun("$iftag", []string{"Int"}, "Int") }
func (t *Task) ifVal() string { return t.declareFun("$ifval", []string{"Int"}, "Int") }
func (t *Task) mkIf() string  { return t.declareFun("$mkif", []string{"Int", "Int"}, "Int") }

func (t *Task) mkIface(st *State, x Val, XT, IT types.Type, a *Activation) Val {
	tag := t.eng.tagOf(XT)
	var payload string
	switch x.K {
	case KStruct:
		// box the struct value: immutable fresh cell
		ref := a.allocRef(st, "box:"+typeKey(XT), "box")
		t.storeAt(st, "box:"+typeKey(XT), "", ref, "", XT, x)
		payload = ref
	case KSlice, KTuple:
		t.errorf("boxing of %s values outside the subset", x.K)
		payload = "0"
	case KBool:
		payload = sIte(x.S, "1", "0")
	case KF32, KF64:
		c := t.fresh("boxf", "Int")
		payload = c
	default:
		if x.Loc != nil {
			t.errorf("interior pointer converted to interface: outside the subset")
		}
		payload = x.S
		if a != nil {
			a.escape(st, x)
		}
	}
	m := sApp(t.mkIf(), sInt(int64(tag)), payload)
	c := t.fresh("if", "Int")
	t.assume(st.pc, sAnd(sEq(c, m), sEq(sApp(t.ifTag(), c), sInt(int64(tag))), sEq(sApp(t.ifVal(), c), payload), sNot(sEq(c, "0"))))
	return Val{K: KIface, T: IT, S: c, Dyn: XT}
}

// unbox returns the value of dynamic type T held in interface value x.
func (t *Task) unbox(st *State, x Val, T types.Type) Val {
	pl := sApp(t.ifVal(), x.S)
	switch k := kindOfType(T); k {
	case KStruct:
		return t.load(st, "box:"+typeKey(T), pl, "", T)
	case KBool:
		return Val{K: KBool, S: sEq(pl, "1"), T: T}
	case KF32, KF64, KSlice, KTuple:
		t.errorf("unboxing of %s outside the subset", k)
		return t.freshValue(st.pc, "unbox", T)
	default:
		return Val{K: k, S: pl, T: T}
	}
}

func (a *Activation) typeAssert(in *ssa.TypeAssert, st *State) Val {
	t := a.t
	x := a.val(in.X, st)
	AT := in.AssertedType
	var ok string
	var v Val
	if _, isTP := types.Unalias(AT).(*types.TypeParam); isTP && in.CommaOk {
		// assertion to the type parameter: whether it succeeds depends on the instantiation; the value is the payload
		okc := t.fresh("tpassert", "Bool")
		val := Val{K: KOpaque, T: AT, S: sIte(okc, sApp(t.ifVal(), x.S), t.declare("zero$T", "Int"))}
		return Val{K: KTuple, T: in.Type(), Fields: []Val{val, boolVal(okc)}}
	}
	if _, isIface := AT.Underlying().(*types.Interface); isIface {
		if _, isTP := types.Unalias(AT).(*types.TypeParam); isTP {
			t.errorf("%s: type assertion to type parameter outside the subset", a.fn)
		}
		ok = t.implementsTerm(x, AT)
		v = x
		v.T = AT
	} else {
		tag := t.eng.tagOf(AT)
		ok = sAnd(sNot(sEq(x.S, "0")), sEq(sApp(t.ifTag(), x.S), sInt(int64(tag))))
		if x.Dyn != nil {
			if typeKey(x.Dyn) == typeKey(AT) {
				ok = tTrue
			} else {
				ok = tFalse
			}
		}
		v = t.unbox(st, x, AT)
		if _, isPtr := AT.Underlying().(*types.Pointer); isPtr && in.CommaOk {
			t.assumed["typed-nil pointers inside interface values are not considered (a successful type assertion to a pointer type yields a non-nil pointer)"] = true
			t.assume(st.pc, sImp(ok, sNot(sEq(v.S, "0"))))
		}
	}
	if in.CommaOk {
		// when not ok the value is the zero value
		z := t.zeroValue(AT)
		mv := v
		if ok != tTrue {
			okc := t.namedPc(sAnd(st.pc, ok))
			nokc := t.namedPc(sAnd(st.pc, sNot(ok)))
			mv = t.mergeVals([]string{okc, nokc}, []Val{v, z}, "assert")
		}
		return Val{K: KTuple, T: in.Type(), Fields: []Val{mv, boolVal(ok)}}
	}
	a.obligeSafety(st, "typeassert", typeKey(AT), ok, in.Pos())
	return v
}

// implementsTerm: does the dynamic type of x implement interface IT?
func (t *Task) implementsTerm(x Val, IT types.Type) string {
	if x.Dyn != nil {
		if it, ok := IT.Underlying().(*types.Interface); ok && !hasTypeParam(x.Dyn) {
			if types.Implements(x.Dyn, it) {
				return tTrue
			}
			return tFalse
		}
	}
	// static type of x already implements IT?
	if it, ok := IT.Underlying().(*types.Interface); ok && x.T != nil {
		if xi, ok2 := x.T.Underlying().(*types.Interface); ok2 && xi.NumMethods() >= it.NumMethods() {
			if implementsErased(x.T, it) {
				return sNot(sEq(x.S, "0"))
			}
		}
	}
	f := t.declareFun("$impl:"+typeKey(IT), []string{"Int"}, "Bool")
	if it, ok := IT.Underlying().(*types.Interface); ok && !t.pureDone["impl:"+typeKey(IT)] {
		t.pureDone["impl:"+typeKey(IT)] = true
		for _, C := range t.eng.allModuleTypes() {
			if implementsErased(C, it) {
				t.asserts = append(t.asserts, sApp(f, sInt(int64(t.eng.tagOf(C)))))
			}
		}
	}
	return sAnd(sNot(sEq(x.S, "0")), sApp(f, sApp(t.ifTag(), x.S)))
}

func implementsErased(T types.Type, it *types.Interface) bool {
	ms := types.NewMethodSet(T)
	for i := 0; i < it.NumMethods(); i++ {
		if ms.Lookup(it.Method(i).Pkg(), it.Method(i).Name()) == nil {
			return false
		}
	}
	return true
}

func hasTypeParam(T types.Type) bool {
	found := false
	var walk func(T types.Type, d int)
	walk = func(T types.Type, d int) {
		if d > 5 || found {
			return
		}
		switch T := types.Unalias(T).(type) {
		case *types.TypeParam:
			found = true
		case *types.Pointer:
			walk(T.Elem(), d+1)
		case *types.Named:
			ta := T.TypeArgs()
			for i := 0; i < ta.Len(); i++ {
				walk(ta.At(i), d+1)
			}
		case *types.Slice:
			walk(T.Elem(), d+1)
		}
	}
	walk(T, 0)
	return found
}

func (a *Activation) convert(in *ssa.Convert, st *State) Val {
	t := a.t
	x := a.val(in.X, st)
	T := a.subst(in.Type())
	XT := a.subst(in.X.Type())
	to := kindOfType(T)
	if to == KOpaque {
		// conversion to an unresolved numeric type parameter
		to = KInt
		T = types.Typ[types.Int64]
	}
	from := x.K
	if from == KOpaque {
		from = KInt
	}
	switch {
	case from == KInt && to == KInt:
		if t.bv {
			return Val{K: KInt, S: x.S, T: T}
		}
		// value must fit the target type (wrap-around would break the integer model)
		goal := inRangeTerm(x.S, T)
		lo1, hi1, _ := intRange(XT)
		lo2, hi2, _ := intRange(T)
		if !(lo1 == lo2 && hi1 == hi2) && goal != tTrue {
			if !rangeWithin(lo1, hi1, lo2, hi2) {
				a.obligeSafety(st, "ovf", "convert", goal, in.Pos())
			}
		}
		return Val{K: KInt, S: x.S, T: T}
	case from == KInt && to == KF64:
		if t.bv {
			a.modeUnreachable(st, "int->float64 conversion in a 'mode bv64' case", in.Pos())
			return t.freshValue(st.pc, "f64", T)
		}
		return Val{K: KF64, S: a.exactInt("(to_real "+x.S+")", st, in.Pos()), T: T}
	case from == KF64 && to == KInt:
		if t.bv {
			a.modeUnreachable(st, "float64->int conversion in a 'mode bv64' case", in.Pos())
			return t.freshValue(st.pc, "i", T)
		}
		r := t.truncReal(x.S)
		// out-of-range conversions are implementation-defined in Go: obligation keeps us in range
		a.obligeSafety(st, "ovf", "float64->int", inRangeTerm(r, T), in.Pos())
		return Val{K: KInt, S: r, T: T}
	case from == KInt && to == KF32:
		if !t.bv {
			a.modeUnreachable(st, "int->float32 conversion outside 'mode bv64'", in.Pos())
			return t.freshValue(st.pc, "f32", T)
		}
		if isUnsigned(XT) {
			return Val{K: KF32, S: "((_ to_fp_unsigned 8 24) RNE " + x.S + ")", T: T}
		}
		return Val{K: KF32, S: "((_ to_fp 8 24) RNE " + x.S + ")", T: T}
	case from == KF32 && to == KInt:
		if !t.bv {
			a.modeUnreachable(st, "float32->int conversion outside 'mode bv64'", in.Pos())
			return t.freshValue(st.pc, "i", T)
		}
		// in range: exact truncation; out of range: unspecified value (Go spec: implementation specific)
		c := t.fresh("f2i", "(_ BitVec 64)")
		inr := "(and (fp.leq ((_ to_fp 8 24) RNE (- 9223372036854775808.0)) " + x.S + ") (fp.lt " + x.S + " ((_ to_fp 8 24) RNE 9223372036854775808.0)))"
		t.assume(st.pc, sImp(inr, sEq(c, "((_ fp.to_sbv 64) RTZ "+x.S+")")))
		a.obligeSafety(st, "ovf", "float32->int", inr, in.Pos())
		return Val{K: KInt, S: c, T: T}
	case from == KF64 && to == KF64, from == KF32 && to == KF32, from == KStr && to == KStr:
		x.T = T
		return x
	case from == KF32 && to == KF64:
		if !t.bv {
			// exact: every float32 is a float64
			if t.realInt == nil {
				t.realInt = map[string]bool{}
			}
			return Val{K: KF64, S: x.S, T: T}
		}
		a.modeUnreachable(st, "float32->float64 conversion in 'mode bv64'", in.Pos())
		return t.freshValue(st.pc, "f64", T)
	case from == KF64 && to == KF32:
		t.errorf("%s: float64->float32 conversion outside the subset", a.fn)
	case from == KRef && to == KRef:
		x.T = T
		return x
	}
	if from == to {
		x.T = T
		return x
	}
	t.errorf("%s: unsupported conversion %s -> %s", a.fn, XT, T)
	return t.freshValue(st.pc, "conv", T)
}

// modeUnreachable: an operation that the numeric mode of this case cannot encode must be unreachable under the
// case's preconditions (another case of the same function covers it in the other mode).
func (a *Activation) modeUnreachable(st *State, what string, pos token.Pos) {
	t := a.t
	a.arith["mode"]++
	name := fmt.Sprintf("%s#modecase[%d]", fullName(a.fn), a.arith["mode"])
	o := t.oblige("modecase", name, "", st.pc, tFalse, posStr(t.eng.fset, pos), what+" must be unreachable in this case")
	o.Fn = fullName(a.fn)
}

func rangeWithin(lo1, hi1, lo2, hi2 string) bool {
	// all decimal strings; compare numerically via big ints would be cleaner, but the handful of
	// combinations is small: use length+lexicographic compare with sign handling.
	return decLE(lo2, lo1) && decLE(hi1, hi2)
}

func decLE(a, b string) bool { // a <= b
	na, nb := strings.HasPrefix(a, "-"), strings.HasPrefix(b, "-")
	switch {
	case na && !nb:
		return true
	case !na && nb:
		return false
	case na && nb:
		return decLE(b[1:], a[1:])
	}
	if len(a) != len(b) {
		return len(a) < len(b)
	}
	return a <= b
}

func (a *Activation) panicSite(in *ssa.Panic, st *State) {
	// explicit panic(...) in the source: documented behaviour; reaching it is recorded as a no-panic obligation
	t := a.t
	a.arith["panic"]++
	name := fmt.Sprintf("%s#panic[%d]", fullName(a.fn), a.arith["panic"])
	o := t.oblige("panic", name, "", st.pc, tFalse, posStr(t.eng.fset, in.Pos()), "explicit panic")
	o.Fn = fullName(a.fn)
}

// reentrantFact: whether the code named full may run concurrently with itself on the same captured state. True only
// when its contract says so ('reentrant' clause); false for every other function under contract (its state is
// confined to one goroutine); unconstrained for code without a contract.
func (t *Task) reentrantFact(full string) {
	cons := t.eng.con.Funcs[full]
	if len(cons) == 0 {
		return
	}
	val := tFalse
	for _, c := range cons {
		if c.hasClause("reentrant") {
			val = tTrue
		}
	}
	f := t.declareFun("$reentrantfn", []string{"Int"}, "Bool")
	t.lateFacts = append(t.lateFacts, sEq(sApp(f, t.declare("fn:"+full, "Int")), val))
}
