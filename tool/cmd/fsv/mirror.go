package main

import (
	"fmt"
	"os"
	"go/token"
	"go/types"
	"sort"
	"strings"

	"golang.org/x/tools/go/ssa"
)

// Interface-level contracts of the module's own interfaces (policy.ExecutionInternal, circuitbreaker.stats, ...) are
// *assumed* at interface call sites. Where an implementation in the module has a verified contract of its own, the
// assumed one must follow from it, otherwise a caller could rely on something no implementation guarantees.
// A mirror obligation states exactly that:
//
//	under the implementation's preconditions, the implementation's postconditions imply every 'ensures' of the
//	interface-level contract, and an interface contract that promises "modifies nothing" is only allowed when the
//	implementation's frame lists no heap location.
//
// (Not checked, and listed as an assumption: the implementation's preconditions are not established at interface call
// sites.)

type mirrorPair struct {
	iface   *FuncContract
	method  *types.Func
	recvT   types.Type // implementing type (as it sits in the interface value)
	impl    *ssa.Function
	implCon *FuncContract
}

// mirrorPairs finds (interface contract, implementation contract) pairs for the interface contracts named in used.
func (e *Eng) mirrorPairs(used map[string]bool) []mirrorPair {
	var names []string
	for k := range used {
		names = append(names, k)
	}
	sort.Strings(names)
	var out []mirrorPair
	for _, full := range names {
		cons := e.con.Funcs[full]
		if len(cons) == 0 || !cons[0].Trusted {
			continue
		}
		k := strings.LastIndex(full, ".")
		if k < 0 {
			continue
		}
		mname := full[k+1:]
		tfull := full[:k]
		k2 := strings.LastIndex(tfull, ".")
		if k2 < 0 {
			continue
		}
		pkgPath, tname := tfull[:k2], tfull[k2+1:]
		p, ok := e.pkgs[pkgPath]
		if !ok || p.Types == nil {
			continue
		}
		tn, ok := p.Types.Scope().Lookup(tname).(*types.TypeName)
		if !ok {
			continue
		}
		it, ok := tn.Type().Underlying().(*types.Interface)
		if !ok {
			continue
		}
		var m *types.Func
		for i := 0; i < it.NumMethods(); i++ {
			if it.Method(i).Name() == mname {
				m = it.Method(i)
			}
		}
		if m == nil {
			continue
		}
		// module types with that method and a contract of their own
		var paths []string
		for pp := range e.pkgs {
			paths = append(paths, pp)
		}
		sort.Strings(paths)
		for _, pp := range paths {
			scope := e.pkgs[pp].Types.Scope()
			for _, n := range scope.Names() {
				otn, ok := scope.Lookup(n).(*types.TypeName)
				if !ok || otn.IsAlias() {
					continue
				}
				if _, isI := otn.Type().Underlying().(*types.Interface); isI {
					continue
				}
				for _, T := range []types.Type{types.NewPointer(otn.Type()), otn.Type()} {
					fn, path := e.methodOfPath(T, m)
					if fn == nil || len(path) > 0 || fn.Signature.Recv() == nil {
						continue
					}
					// the method must be declared on exactly T (not promoted), with matching receiver kind
					if typeKey(fn.Signature.Recv().Type()) != typeKey(T) {
						continue
					}
					if ms := m.Type().(*types.Signature); ms.Params().Len() != fn.Signature.Params().Len() || ms.Results().Len() != fn.Signature.Results().Len() {
						continue // same name, different method (e.g. executionResult.Cancel()): not an implementation
					}
					ic := pickContract(e.con.Funcs[fullName(fn)], "")
					if ic == nil || ic.Trusted {
						continue
					}
					// T must have every method of the interface (generic types: compared by name)
					all := true
					for i := 0; i < it.NumMethods(); i++ {
						if obj, _, _ := types.LookupFieldOrMethod(T, true, it.Method(i).Pkg(), it.Method(i).Name()); obj == nil {
							all = false
						}
					}
					if os.Getenv("FSV_DEBUG") != "" {
						fmt.Fprintln(os.Stderr, "mirror candidate", full, "<-", fullName(fn), "nmethods", it.NumMethods(), "all", all)
					}
					if !all {
						continue
					}
					out = append(out, mirrorPair{iface: cons[0], method: m, recvT: T, impl: fn, implCon: ic})
					break
				}
			}
		}
	}
	return out
}

// verifyMirror generates the mirror obligations of one pair.
func (t *Task) verifyMirror(mp mirrorPair) {
	fn := mp.impl
	t.curFn = mp.iface.Full
	st0 := t.newEpochState(tTrue)
	t.regArray("$now", "Int")
	t.regArray("$tick", "Int")
	t.callsArr(st0)
	var args []Val
	for _, p := range fn.Params {
		v := t.freshValue(tTrue, "in:"+p.Name(), p.Type())
		args = append(args, v)
		t.registerModelSyms(v)
	}
	a := &Activation{t: t, fn: fn, env: map[ssa.Value]Val{}, entry: st0, params: map[string]Val{}, con: mp.implCon, lets: map[string]Val{}, root: true, arith: map[string]int{}}
	for i, p := range fn.Params {
		a.params[p.Name()] = args[i]
		a.env[p] = args[i]
		a.wfRef(st0, args[i])
	}
	// the implementation's preconditions are assumed (see the note at the top of this file)
	env := a.exprEnv(st0, nil)
	for _, c := range mp.implCon.Clauses {
		switch c.Kind {
		case "requires", "premise":
			t.assume(tTrue, env.evalBool(c.Expr, c.Src))
		case "ext", "oldlet":
			env.vars[c.Name] = env.evalSrc(c.Expr, c.Src)
		}
	}
	t.assumed["preconditions of "+shortName(mp.implCon.Full)+" are not established at calls through "+shortName(mp.iface.Full)+" (interface call sites see the interface-level contract only)"] = true
	post, res := a.applyContract(mp.implCon, fn, args, nil, st0, token.NoPos, fn.Signature)
	if post == nil {
		return
	}
	// the interface-level view of the same call
	vars := map[string]Val{}
	if len(args) > 0 {
		recv := args[0]
		// the interface value the call goes through: tag and payload facts as mkIface states them
		tag := sInt(int64(t.eng.tagOf(mp.recvT)))
		self := t.fresh("if", "Int")
		t.assume(tTrue, sAnd(sEq(self, sApp(t.mkIf(), tag, recv.S)), sEq(sApp(t.ifTag(), self), tag), sEq(sApp(t.ifVal(), self), recv.S), sNot(sEq(self, "0"))))
		vars["self"] = Val{K: KIface, S: self, Dyn: mp.recvT}
	}
	sig := mp.method.Type().(*types.Signature)
	for i := 0; i < sig.Params().Len() && i+1 < len(args); i++ {
		n := sig.Params().At(i).Name()
		if n == "" || n == "_" {
			n = fmt.Sprintf("p%d", i)
		}
		vars[n] = args[i+1]
	}
	for i, r := range res {
		vars[fmt.Sprintf("result_%d", i)] = r
	}
	penv := &ExprEnv{t: t, st: post, old: st0, vars: vars, pkg: mp.iface.Pkg, callBase: st0}
	n := 0
	for _, c := range mp.iface.Clauses {
		switch c.Kind {
		case "let":
			vars[c.Name] = penv.evalSrc(c.Expr, c.Src)
		case "ensures":
			for _, part := range splitConj(c.Expr) {
				n++
				v := penv.evalBool(part, c.Src)
				name := fmt.Sprintf("%s#mirror[%s:%d]", mp.iface.Full, shortName(mp.implCon.Full), n)
				o := t.oblige("mirror", name, c.Label, post.pc, v, c.Src, part)
				o.Fn = mp.iface.Full
			}
		}
	}
	// frame: "modifies nothing" (and no havoc) at the interface needs a heap-silent implementation
	if !mp.iface.hasClause("havoc") {
		silentIface := true
		for _, c := range mp.iface.Clauses {
			if c.Kind == "modifies" && strings.TrimSpace(c.Expr) != "nothing" {
				silentIface = false
			}
		}
		if silentIface {
			bad := ""
			if mp.implCon.hasClause("havoc") {
				bad = "havoc"
			}
			for _, c := range mp.implCon.Clauses {
				if c.Kind != "modifies" {
					continue
				}
				for _, item := range splitList(c.Expr) {
					item = strings.TrimSpace(item)
					switch {
					case item == "nothing", strings.HasPrefix(item, "calls("), item == "methodcalls", strings.HasPrefix(item, "canceled("), strings.HasPrefix(item, "tokens("), strings.HasPrefix(item, "held("):
					default:
						if bad == "" {
							bad = item
						}
					}
				}
			}
			goal := tTrue
			if bad != "" {
				goal = tFalse
			}
			name := fmt.Sprintf("%s#mirror[%s:frame]", mp.iface.Full, shortName(mp.implCon.Full))
			o := t.oblige("mirror", name, "", tTrue, goal, mp.iface.Src, "interface contract says 'modifies nothing'; implementation frame: "+orNone(bad))
			o.Fn = mp.iface.Full
		}
	}
}

func orNone(s string) string {
	if s == "" {
		return "no heap location"
	}
	return s
}
