package main

// Specification-only functions: old, ite, forall_, imp_, calls, ret, arg, held, typeis, pure functions ...

import (
	"fmt"
	"go/ast"
	"go/token"
	"go/types"
	"strconv"
	"strings"
)

func (env *ExprEnv) callExpr(e *ast.CallExpr) Val {
	t := env.t
	fname := ""
	switch f := e.Fun.(type) {
	case *ast.Ident:
		fname = f.Name
	case *ast.SelectorExpr:
		// pkg.pure(...) or method-like spec call x.m(...)
		if id, ok := f.X.(*ast.Ident); ok {
			if pf, ok := t.eng.con.Pure[id.Name+"."+f.Sel.Name]; ok {
				return env.applyPure(pf, e.Args)
			}
		}
		return env.fail("unsupported call %s", exprString(e.Fun))
	default:
		return env.fail("unsupported call expression")
	}
	arg := func(i int) Val {
		if i >= len(e.Args) {
			env.fail("%s: missing argument %d", fname, i)
			return Val{K: KInt, S: "0"}
		}
		return env.eval(e.Args[i])
	}
	// call indices are mathematical integers even when Go integers are bit-vectors
	switch fname {
	case "ret", "retb", "reti", "arg", "argb", "tickof":
		if t.bv {
			saved, savedG := t.bv, gBV
			t.bv, gBV = false, false
			ix := env.eval(e.Args[1])
			t.bv, gBV = saved, savedG
			orig := arg
			arg = func(i int) Val {
				if i == 1 {
					return ix
				}
				return orig(i)
			}
		}
	}
	switch fname {
	case "imp_":
		a, b := arg(0), arg(1)
		return boolVal(sImp(a.S, b.S))
	case "forall_", "exists_":
		return env.quant(fname, e)
	case "old":
		if env.old == nil {
			return env.fail("old() not available here")
		}
		n := *env
		n.st = env.old
		return n.eval(e.Args[0])
	case "ite":
		c, a, b := arg(0), arg(1), arg(2)
		r := a
		r.S = sIte(c.S, a.S, b.S)
		return r
	case "min", "max":
		r := arg(0)
		for i := 1; i < len(e.Args); i++ {
			y := arg(i)
			le := "(<= " + r.S + " " + y.S + ")"
			if t.bv && r.K == KInt {
				le = "(bvsle " + r.S + " " + y.S + ")"
			}
			if fname == "min" {
				r.S = sIte(le, r.S, y.S)
			} else {
				r.S = sIte(le, y.S, r.S)
			}
		}
		return r
	case "abs":
		x := arg(0)
		x.S = sIte("(>= "+x.S+" 0)", x.S, "(- "+x.S+")")
		return x
	case "b2i":
		x := arg(0)
		return intVal(sIte(x.S, "1", "0"))
	case "int", "int64", "uint", "uint64", "int32", "uint32":
		x := arg(0)
		if x.K == KF64 {
			return intVal(t.truncReal(x.S))
		}
		x.K = KInt
		return x
	case "real", "float64":
		x := arg(0)
		if x.K == KInt {
			return Val{K: KF64, S: "(to_real " + x.S + ")", T: types.Typ[types.Float64]}
		}
		return x
	case "ediv": // Euclidean / floor division for positive divisors (SMT div)
		a, b := arg(0), arg(1)
		return intVal("(div " + a.S + " " + b.S + ")")
	case "emod":
		a, b := arg(0), arg(1)
		return intVal("(mod " + a.S + " " + b.S + ")")
	case "len":
		x := arg(0)
		if x.K == KSlice {
			return x.Fields[1]
		}
		if x.Unset {
			return intVal(env.t.fresh("unset:len", "Int"))
		}
		return env.fail("len of %s", x.K)
	case "upd":
		m, i, v := arg(0), arg(1), arg(2)
		r := m
		r.S = sApp("store", m.S, i.S, v.S)
		return r
	case "typeis":
		x := arg(0)
		if len(e.Args) < 2 {
			return env.fail("typeis needs a type")
		}
		T := env.resolveType(e.Args[1])
		if T == nil {
			return env.fail("typeis: unknown type %s", exprString(e.Args[1]))
		}
		// an interface value is determined by its dynamic type and payload
		if env.st != nil {
			t.assume(env.st.pc, sOr(sEq(x.S, "0"), sEq(x.S, sApp(t.mkIf(), sApp(t.ifTag(), x.S), sApp(t.ifVal(), x.S)))))
		}
		return boolVal(sAnd(sNot(sEq(x.S, "0")), sEq(sApp(t.ifTag(), x.S), sInt(int64(t.eng.tagOf(T))))))
	case "background": // the value returned by context.Background()
		return Val{K: KIface, S: t.declare("ctx:background", "Int")}
	case "implements": // implements(x, I): the dynamic type of interface value x implements interface I
		x := arg(0)
		T := env.resolveType(e.Args[1])
		if T == nil {
			return env.fail("implements: unknown interface %s", exprString(e.Args[1]))
		}
		xx := x
		xx.T = nil
		xx.Dyn = nil
		return boolVal(t.implementsTerm(xx, T))
	case "asiface": // asiface(p): the interface value holding pointer p (dynamic type = static type of p)
		x := arg(0)
		if x.T == nil {
			return env.fail("asiface: untyped value")
		}
		return Val{K: KIface, S: sApp(t.mkIf(), sInt(int64(t.eng.tagOf(x.T))), x.S), Dyn: x.T}
	case "ismethod": // the ghost identity of an interface method call (never a real function value)
		f := arg(0)
		return boolVal(sEq(sApp(t.fkind(), f.S), "3"))
	case "payload": // the reference held by an interface value
		x := arg(0)
		return Val{K: KRef, S: sApp(t.ifVal(), x.S)}
	case "strof": // string held in an interface value
		x := arg(0)
		return Val{K: KStr, S: sApp(t.ifVal(), x.S), T: types.Typ[types.String]}
	case "cast": // cast(x, *T): view an untyped reference (e.g. a recorded argument) as a pointer of the given type
		x := arg(0)
		T := env.resolveType(e.Args[1])
		if T == nil {
			return env.fail("cast: unknown type %s", exprString(e.Args[1]))
		}
		return Val{K: kindOfType(T), S: x.S, T: T}
	case "asref": // payload of an interface value as a reference of the given pointer type
		x := arg(0)
		T := env.resolveType(e.Args[1])
		if T == nil {
			return env.fail("asref: unknown type")
		}
		return Val{K: KRef, S: sApp(t.ifVal(), x.S), T: T}
	case "calls":
		f := arg(0)
		return intVal(sApp("select", t.callsArr(env.st), f.S))
	case "ncalls": // calls made since entry
		f := arg(0)
		return intVal("(- " + sApp("select", t.callsArr(env.st), f.S) + " " + sApp("select", t.callsArr(env.callBase), f.S) + ")")
	case "ret", "retb", "reti":
		// ret(f, i [, j]): j-th scalar leaf of the result of the i-th call of f since entry
		f, i := arg(0), arg(1)
		j := 0
		if len(e.Args) > 2 {
			j = constInt(e.Args[2])
		}
		k := "(+ " + sApp("select", t.callsArr(env.callBase), f.S) + " " + i.S + ")"
		kind := KInt
		if fname == "retb" {
			kind = KBool
		}
		if fname == "reti" {
			return Val{K: KIface, S: t.oretTerm(f.S, k, j, KIface)}
		}
		return Val{K: kind, S: t.oretTerm(f.S, k, j, kind), T: types.Typ[types.Int]}
	case "arg", "argb":
		f, i := arg(0), arg(1)
		j := 0
		if len(e.Args) > 2 {
			j = constInt(e.Args[2])
		}
		k := "(+ " + sApp("select", t.callsArr(env.callBase), f.S) + " " + i.S + ")"
		kind := KInt
		if fname == "argb" {
			kind = KBool
		}
		name := t.oargName(j, kind)
		return Val{K: kind, S: sApp("select", sApp("select", t.lookup(env.st, name), f.S), k), T: types.Typ[types.Int]}
	case "lastret", "lastreti", "lastretb": // result of the most recent call of f (no index arithmetic)
		f := arg(0)
		j := 0
		if len(e.Args) > 1 {
			j = constInt(e.Args[1])
		}
		k := sApp("select", t.callsArr(env.st), f.S)
		switch fname {
		case "lastreti":
			return Val{K: KIface, S: t.oretTerm(f.S, k, j, KIface)}
		case "lastretb":
			return boolVal(t.oretTerm(f.S, k, j, KBool))
		}
		return intVal(t.oretTerm(f.S, k, j, KInt))
	case "lastarg": // j-th recorded argument of the most recent call of f
		f := arg(0)
		j := 0
		if len(e.Args) > 1 {
			j = constInt(e.Args[1])
		}
		k := sApp("select", t.callsArr(env.st), f.S)
		name := t.oargName(j, KInt)
		return intVal(sApp("select", sApp("select", t.lookup(env.st, name), f.S), k))
	case "retabs": // result of the call number k (absolute) of f
		f, k := arg(0), arg(1)
		return intVal(t.oretTerm(f.S, k.S, 0, KInt))
	case "reti_arg": // recorded argument viewed as an interface value
		f, i := arg(0), arg(1)
		j := 0
		if len(e.Args) > 2 {
			j = constInt(e.Args[2])
		}
		k := "(+ " + sApp("select", t.callsArr(env.callBase), f.S) + " " + i.S + ")"
		name := t.oargName(j, KIface)
		return Val{K: KIface, S: sApp("select", sApp("select", t.lookup(env.st, name), f.S), k)}
	case "tickof": // logical time of the i-th call of f since entry
		f, i := arg(0), arg(1)
		k := "(+ " + sApp("select", t.callsArr(env.callBase), f.S) + " " + i.S + ")"
		t.regArray("$otick", "(Array Int (Array Int Int))")
		return intVal(sApp("select", sApp("select", t.lookup(env.st, "$otick"), f.S), k))
	case "now":
		t.regArray("$tick", "Int")
		return intVal(t.lookup(env.st, "$tick"))
	case "evtime": // evtime("close", x): logical time of a ghost event on object x (0-based ticks)
		kind, _ := strconv.Unquote(exprString(e.Args[0]))
		x := arg(1)
		name := "$ev:" + kind
		t.regArray(name, "(Array Int Int)")
		return intVal(sApp("select", t.lookup(env.st, name), x.S))
	case "held":
		m := arg(0)
		t.regArray("$held", "(Array Int Bool)")
		return boolVal(sApp("select", t.lookup(env.st, "$held"), m.S))
	case "mutexof": // identity of a mutex field: mutexof(x, "mtx")
		x := arg(0)
		fld, _ := strconv.Unquote(exprString(e.Args[1]))
		return env.mutexIdent(x, fld)
	case "fresh":
		x := arg(0)
		t.regArray("$now", "Int")
		age := t.declareFun("$age", []string{"Int"}, "Int")
		return boolVal(sAnd("(> "+x.S+" 1)", "(>= "+sApp(age, x.S)+" "+t.lookup(env.old, "$now")+")", "(< "+sApp(age, x.S)+" "+t.lookup(env.st, "$now")+")"))
	case "appb", "appi":
		f := arg(0)
		var as []Val
		for i := 1; i < len(e.Args); i++ {
			as = append(as, arg(i))
		}
		if fname == "appb" {
			return boolVal(t.appTerm(f.S, as, KBool))
		}
		return intVal(t.appTerm(f.S, as, KInt))
	case "cellof": // cellof(x, T): content of the variable cell x (captured variable) of type T
		x := arg(0)
		if lit, ok := e.Args[1].(*ast.BasicLit); ok {
			// type given by its key string, e.g. "func(R, error) bool"
			key, _ := strconv.Unquote(lit.Value)
			k := KInt
			if strings.HasPrefix(key, "func") {
				k = KFunc
			}
			name := "cell:" + key
			t.regArray(name, "(Array Int "+sortOfKind(k)+")")
			return Val{K: k, S: sApp("select", t.lookup(env.st, name), x.S)}
		}
		T := env.resolveType(e.Args[1])
		if T == nil {
			return env.fail("cellof: unknown type %s", exprString(e.Args[1]))
		}
		return t.load(env.st, "cell:"+typeKey(T), x.S, "", T)
	case "allocated":
		x := arg(0)
		t.regArray("$now", "Int")
		age := t.declareFun("$age", []string{"Int"}, "Int")
		return boolVal(sAnd("(> "+x.S+" 1)", "(< "+sApp(age, x.S)+" "+t.lookup(env.st, "$now")+")"))
	case "boxT": // interface value holding a value of the type parameter
		x := arg(0)
		T := types.NewTypeParam(types.NewTypeName(token.NoPos, nil, "R", nil), types.NewInterfaceType(nil, nil))
		return Val{K: KIface, S: sApp(t.mkIf(), sInt(int64(t.eng.tagOf(T))), x.S)}
	case "zeroval":
		return Val{K: KOpaque, S: t.declare("zero$T", "Int")}
	case "fnid": // fnid("pkg/path.(*T).Method$1"): identity of a function's code
		nm, _ := strconv.Unquote(exprString(e.Args[0]))
		if !strings.Contains(nm, "/") {
			nm = env.pkg + "." + nm
		}
		c := t.funcIDByName(nm)
		return Val{K: KFunc, S: c}
	case "clofn":
		f := arg(0)
		return Val{K: KFunc, S: sApp(t.cloFn(), f.S)}
	case "clobind": // clobind(f, i): i-th captured value of closure f
		f := arg(0)
		i := constInt(e.Args[1])
		bf := t.declareFun(fmt.Sprintf("$clobind%d", i), []string{"Int"}, "Int")
		return Val{K: KInt, S: sApp(bf, f.S)}
	case "tokens": // tokens(ch): sends minus receives performed on ch by the verified thread
		c := arg(0)
		t.regArray("$tok", "(Array Int Int)")
		return intVal(sApp("select", t.lookup(env.st, "$tok"), c.S))
	case "sends":
		c := arg(0)
		t.regArray("$sends", "(Array Int Int)")
		return intVal(sApp("select", t.lookup(env.st, "$sends"), c.S))
	case "sel": // sel(k): index chosen by the k-th select statement (textual order) the last time it ran
		k := constInt(e.Args[0])
		t.regArray("$g:sel", "(Array Int Int)")
		return intVal(sApp("select", t.lookup(env.st, "$g:sel"), sInt(int64(k))))
	case "canceled": // canceled(ctx): the context has been observed / made cancelled (ghost, monotone)
		c := arg(0)
		t.regArray("$g:canc", "(Array Int Bool)")
		return boolVal(sApp("select", t.lookup(env.st, "$g:canc"), c.S))
	case "atomval": // atomval(owner, "field", kind): current value of the atomic cell field of owner (kind: bool | ref | int)
		x := arg(0)
		fld, _ := strconv.Unquote(exprString(e.Args[1]))
		kd, _ := strconv.Unquote(exprString(e.Args[2]))
		base := x.T
		if p := derefType(base); p != nil {
			base = p
		}
		prefix := typeKey(base) + "." + fld
		switch kd {
		case "bool":
			t.regArray(prefix+".v#b", "(Array Int Bool)")
			return boolVal(sApp("select", t.lookup(env.st, prefix+".v#b"), x.S))
		case "int":
			t.regArray(prefix+".v", "(Array Int Int)")
			return intVal(sApp("select", t.lookup(env.st, prefix+".v"), x.S))
		}
		t.regArray(prefix+".v", "(Array Int Int)")
		return Val{K: KRef, S: sApp("select", t.lookup(env.st, prefix+".v"), x.S)}
	case "atomval_bool", "atomval_int": // content of the atomic.Bool / atomic.Int32 cell p points to
		x := arg(0)
		pre := "sync/atomic.Bool"
		if fname == "atomval_int" {
			pre = "sync/atomic.Int32"
		}
		if x.Loc != nil {
			pre = x.Loc.Prefix
		}
		if fname == "atomval_bool" {
			t.regArray(pre+".v#b", "(Array Int Bool)")
			return boolVal(sApp("select", t.lookup(env.st, pre+".v#b"), x.S))
		}
		t.regArray(pre+".v", "(Array Int Int)")
		return intVal(sApp("select", t.lookup(env.st, pre+".v"), x.S))
	case "nsends": // sends performed on ch by the verified thread since entry
		c := arg(0)
		t.regArray("$sends", "(Array Int Int)")
		return intVal("(- " + sApp("select", t.lookup(env.st, "$sends"), c.S) + " " + sApp("select", t.lookup(env.callBase, "$sends"), c.S) + ")")
	case "atomval_ptr": // atomval_ptr(p): content of the atomic.Pointer cell p points to
		x := arg(0)
		pre := "sync/atomic.Pointer"
		ref := x.S
		if x.Loc != nil {
			pre = x.Loc.Prefix
		}
		t.regArray(pre+".v", "(Array Int Int)")
		return Val{K: KRef, S: sApp("select", t.lookup(env.st, pre+".v"), ref)}
	case "local": // local("name"): the local variable of that name (for names that clash with specification keywords)
		nm, _ := strconv.Unquote(exprString(e.Args[0]))
		if env.a != nil {
			if v, ok := env.a.localByName(nm, env.st); ok {
				return v
			}
		}
		return env.fail("no local %q", nm)
	case "lasttimerdur": // duration given to the most recent time.NewTimer call
		t.regArray("$g:lasttimerdur", "Int")
		return intVal(t.lookup(env.st, "$g:lasttimerdur"))
	case "maphas": // maphas(m, k): key k is present in (read-only) map m
		m, k := arg(0), arg(1)
		has := t.declareFun("$maphas", []string{"Int", "Int"}, "Bool")
		return boolVal(sApp(has, m.S, k.S))
	case "mapgetlen": // length of the slice stored under k
		m, k := arg(0), arg(1)
		f := t.declareFun("$mapget1I", []string{"Int", "Int"}, "Int")
		return intVal(sApp(f, m.S, k.S))
	case "mapgetptr":
		m, k := arg(0), arg(1)
		f := t.declareFun("$mapget0I", []string{"Int", "Int"}, "Int")
		return Val{K: KRef, S: sApp(f, m.S, k.S)}
	case "reentrant": // reentrant(f): the function value f may be called from several goroutines at once (see reentrantFact)
		fv := arg(0)
		if !t.useReentr {
			t.useReentr = true
			for _, n := range t.fnNames {
				t.reentrantFact(n)
			}
		}
		rf := t.declareFun("$reentrantfn", []string{"Int"}, "Bool")
		code := "(ite (= " + sApp(t.fkind(), fv.S) + " 2) " + sApp(t.cloFn(), fv.S) + " " + fv.S + ")"
		return boolVal(sApp(rf, code))
	case "global": // global("name") / global("pkg/path.name"): a package-level variable of reference / interface / int kind
		nm, _ := strconv.Unquote(exprString(e.Args[0]))
		if !strings.Contains(nm, ".") {
			nm = env.pkg + "." + nm
		}
		return Val{K: KIface, S: t.declare("g:"+nm, "Int")}
	case "extfn": // extfn("pkg/path.Func"): identity of a foreign function as a callee (for ret / ncalls of recorded calls)
		nm, _ := strconv.Unquote(exprString(e.Args[0]))
		return Val{K: KFunc, S: t.funcIDByName(nm)}
	case "afterdur": // duration given to the last time.AfterFunc call
		t.regArray("$g:afterdur", "Int")
		return intVal(t.lookup(env.st, "$g:afterdur"))
	case "afterfn":
		t.regArray("$g:afterfn", "Int")
		return Val{K: KFunc, S: t.lookup(env.st, "$g:afterfn")}
	case "fired":
		c := arg(0)
		t.regArray("$timerfired", "(Array Int Bool)")
		return boolVal(sApp("select", t.lookup(env.st, "$timerfired"), c.S))
	case "chancap":
		c := arg(0)
		t.regArray("$chancap", "(Array Int Int)")
		return intVal(sApp("select", t.lookup(env.st, "$chancap"), c.S))
	case "closed":
		c := arg(0)
		t.regArray("$chanclosed", "(Array Int Bool)")
		return boolVal(sApp("select", t.lookup(env.st, "$chanclosed"), c.S))
	case "spawned":
		t.regArray("$spawned", "Int")
		return intVal("(- " + t.lookup(env.st, "$spawned") + " " + t.lookup(env.old, "$spawned") + ")")
	case "inrange62":
		x := arg(0)
		return boolVal(sAnd("(<= (- 4611686018427387904) "+x.S+")", "(<= "+x.S+" 4611686018427387904)"))
	case "uf": // uf("name", args...) uninterpreted Int function
		nm, _ := strconv.Unquote(exprString(e.Args[0]))
		var as, sorts []string
		for i := 1; i < len(e.Args); i++ {
			v := arg(i)
			as = append(as, v.S)
			sorts = append(sorts, v.sort())
		}
		f := t.declareFun("uf:"+nm, sorts, "Int")
		return intVal(sApp(f, as...))
	case "ufb":
		nm, _ := strconv.Unquote(exprString(e.Args[0]))
		var as, sorts []string
		for i := 1; i < len(e.Args); i++ {
			v := arg(i)
			as = append(as, v.S)
			sorts = append(sorts, v.sort())
		}
		f := t.declareFun("ufb:"+nm, sorts, "Bool")
		return boolVal(sApp(f, as...))
	case "tof32": // int -> float32 (round to nearest even), bv mode
		x := arg(0)
		return Val{K: KF32, S: "((_ to_fp 8 24) RNE " + x.S + ")", T: types.Typ[types.Float32]}
	case "f32toint": // float32 -> int64 (truncation), bv mode
		x := arg(0)
		return Val{K: KInt, S: "((_ fp.to_sbv 64) RTZ " + x.S + ")", T: types.Typ[types.Int64]}
	case "isint": // real value is integral
		x := arg(0)
		return boolVal("(is_int " + x.S + ")")
	case "f32toreal":
		x := arg(0)
		return Val{K: KF64, S: "(fp.to_real " + x.S + ")", T: types.Typ[types.Float64]}
	case "bvint": // signed integer value of a bit-vector int (for BV mode specs bridging to reals)
		x := arg(0)
		return x
	}
	if mc, ok := t.eng.con.Macros[fname]; ok {
		if len(e.Args) != len(mc.Params) {
			return env.fail("macro %s expects %d arguments", fname, len(mc.Params))
		}
		n := *env
		n.vars = map[string]Val{}
		for k, v := range env.vars {
			n.vars[k] = v
		}
		for i, p := range mc.Params {
			n.vars[p] = env.eval(e.Args[i])
			n.vars["$nofv:"+p] = Val{}
		}
		n.pkg = mc.Pkg
		saved := env.src
		r := n.evalSrc(mc.Body, mc.Src+" (macro "+fname+" used at "+saved+")")
		return r
	}
	if pf, ok := t.eng.con.Pure[env.pkg+"."+fname]; ok {
		return env.applyPure(pf, e.Args)
	}
	if pf, ok := t.eng.con.Pure[fname]; ok {
		return env.applyPure(pf, e.Args)
	}
	return env.fail("unknown specification function %q", fname)
}

func constInt(e ast.Expr) int {
	if b, ok := e.(*ast.BasicLit); ok {
		n, _ := strconv.Atoi(b.Value)
		return n
	}
	return 0
}

func exprString(e ast.Expr) string {
	switch e := e.(type) {
	case *ast.Ident:
		return e.Name
	case *ast.BasicLit:
		return e.Value
	case *ast.SelectorExpr:
		return exprString(e.X) + "." + e.Sel.Name
	case *ast.StarExpr:
		return "*" + exprString(e.X)
	case *ast.IndexExpr:
		return exprString(e.X)
	case *ast.ParenExpr:
		return "(" + exprString(e.X) + ")"
	}
	return fmt.Sprintf("%T", e)
}

func (env *ExprEnv) mutexIdent(x Val, fld string) Val {
	t := env.t
	base := x.T
	if p := derefType(base); p != nil {
		base = p
	}
	for _, m := range t.eng.con.Monitors {
		if m.Pkg+"."+m.Type == typeKey(base) && m.Mutex == fld {
			a := &Activation{t: t}
			return Val{K: KRef, S: a.mutexRefOf(env.st, m, x.S)}
		}
	}
	// undeclared monitor: identity by function of the owner
	f := t.declareFun("$mtxof:"+typeKey(base)+"."+fld, []string{"Int"}, "Int")
	return Val{K: KRef, S: sApp(f, x.S)}
}

// quant handles forall_("x int, y int", body)
func (env *ExprEnv) quant(kind string, e *ast.CallExpr) Val {
	lit, ok := e.Args[0].(*ast.BasicLit)
	if !ok {
		return env.fail("bad quantifier")
	}
	binders, _ := strconv.Unquote(lit.Value)
	n := *env
	n.vars = map[string]Val{}
	for k, v := range env.vars {
		n.vars[k] = v
	}
	var decl []string
	var pending []string
	for _, b := range strings.Split(binders, ",") {
		b = strings.TrimSpace(b)
		nm, ty := splitWord(b)
		if ty == "" {
			pending = append(pending, nm)
			continue
		}
		for _, p := range append(pending, nm) {
			tmpl, sort := n.ghostType(ty)
			v := tmpl
			v.S = smtName("q!" + p)
			n.vars[p] = v
			decl = append(decl, "("+v.S+" "+sort+")")
		}
		pending = nil
	}
	if len(pending) > 0 {
		return env.fail("quantified variable without type")
	}
	env.t.quantDepth++
	body := n.eval(e.Args[1])
	env.t.quantDepth--
	q := "forall"
	if kind == "exists_" {
		q = "exists"
	}
	return boolVal("(" + q + " (" + strings.Join(decl, " ") + ") " + body.S + ")")
}

// applyPure applies a pure specification function (defined once per task via define-fun / define-fun-rec).
func (env *ExprEnv) applyPure(pf *PureFunc, args []ast.Expr) Val {
	t := env.t
	if len(args) != len(pf.Params) {
		return env.fail("pure function %s expects %d arguments", pf.Name, len(pf.Params))
	}
	if pf.Unfold {
		return env.applyUnfold(pf, args)
	}
	t.definePure(pf)
	var as []string
	for _, a := range args {
		as = append(as, env.eval(a).S)
	}
	tmpl, _ := env.ghostType(pf.Ret)
	tmpl.S = sApp(smtName("pure:"+pf.Name), as...)
	return tmpl
}

// applyUnfold: a recursive specification function kept uninterpreted; every application outside a quantifier adds the
// instance "f(args) = body[args]" of its definition (a valid fact for any argument terms), nested to depth 2.
// No quantified definition is emitted, so there is no matching loop; the price is incompleteness beyond two unfoldings.
func (env *ExprEnv) applyUnfold(pf *PureFunc, args []ast.Expr) Val {
	t := env.t
	key := "pure:" + pf.Name
	var sorts []string
	var avals []Val
	for i, a := range args {
		v := env.eval(a)
		tmpl, sort := env.ghostType(pf.Params[i][1])
		tmpl.S = v.S
		avals = append(avals, tmpl)
		sorts = append(sorts, sort)
	}
	rt, rsort := env.ghostType(pf.Ret)
	t.declareFun(key, sorts, rsort)
	var as []string
	for _, v := range avals {
		as = append(as, v.S)
	}
	app := sApp(smtName(key), as...)
	rt.S = app
	if t.quantDepth == 0 && t.unfoldDepth < 2 {
		ikey := "unfold:" + app
		if !t.pureDone[ikey] {
			t.pureDone[ikey] = true
			t.unfoldDepth++
			benv := &ExprEnv{t: t, vars: map[string]Val{}, pkg: pf.Pkg, src: pf.Src, st: env.st, old: env.old, callBase: env.callBase}
			for i, p := range pf.Params {
				benv.vars[p[0]] = avals[i]
			}
			body := benv.evalSrc(pf.Body, pf.Src)
			t.unfoldDepth--
			t.asserts = append(t.asserts, sEq(app, body.S))
		}
	}
	return rt
}

func (t *Task) definePure(pf *PureFunc) {
	key := "pure:" + pf.Name
	if t.pureDone[key] {
		return
	}
	t.pureDone[key] = true
	env := &ExprEnv{t: t, vars: map[string]Val{}, pkg: pf.Pkg, src: pf.Src}
	env.st = t.newEpochState(tTrue)
	var params []string
	var sorts []string
	for _, p := range pf.Params {
		tmpl, sort := env.ghostType(p[1])
		v := tmpl
		v.S = smtName("p!" + p[0])
		env.vars[p[0]] = v
		params = append(params, "("+v.S+" "+sort+")")
		sorts = append(sorts, sort)
	}
	_, rsort := env.ghostType(pf.Ret)
	if pf.Rec {
		// declare first (uninterpreted), then axiomatise by unfolding at use sites: we emit a quantified definition.
		t.declareFun(key, sorts, rsort)
		body := env.evalSrc(pf.Body, pf.Src)
		var ps []string
		for _, p := range pf.Params {
			ps = append(ps, smtName("p!"+p[0]))
		}
		app := sApp(smtName(key), ps...)
		t.decls = append(t.decls, "(assert (forall ("+strings.Join(params, " ")+") (! (= "+app+" "+body.S+") :pattern ("+app+"))))")
		return
	}
	body := env.evalSrc(pf.Body, pf.Src)
	t.declared[smtName(key)] = "defined"
	t.decls = append(t.decls, "(define-fun "+smtName(key)+" ("+strings.Join(params, " ")+") "+rsort+" "+body.S+")")
}
