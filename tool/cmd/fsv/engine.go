package main

import (
	"fmt"
	"go/ast"
	"go/token"
	"go/types"
	"os"
	"sort"
	"strings"

	"golang.org/x/tools/go/packages"
	"golang.org/x/tools/go/ssa"
	"golang.org/x/tools/go/ssa/ssautil"
)

const modPath = "github.com/failsafe-go/failsafe-go"

var verifiedPkgs = []string{
	".", "./common", "./internal", "./internal/util", "./policy", "./retrypolicy", "./circuitbreaker",
	"./ratelimiter", "./bulkhead", "./timeout", "./hedgepolicy", "./fallback", "./cachepolicy",
	"./failsafehttp", "./failsafegrpc",
}

type Eng struct {
	repo     string
	fset     *token.FileSet
	prog     *ssa.Program
	pkgs     map[string]*packages.Package // by path (module packages only)
	ssapkgs  map[string]*ssa.Package
	allpkgs  map[string]*packages.Package
	con      *Contracts
	tags     map[string]int
	tagTypes map[int]types.Type
	strs     map[string]int
	funcs    map[string]*ssa.Function // key pkgpath.RelName (type params stripped), incl. closures
	methIDs  map[string]int
	implCache map[string][]types.Type
	modTypes  []types.Type
	evaluable map[*FuncContract]bool
}

func loadEngine(repo string) (*Eng, error) {
	fset := token.NewFileSet()
	cfg := &packages.Config{
		Mode:       packages.LoadAllSyntax,
		Dir:        repo,
		Fset:       fset,
		BuildFlags: []string{"-tags=verif"},
		Env:        append(os.Environ(), "GOFLAGS=-mod=mod", "GOPROXY=off", "GOSUMDB=off", "GOTOOLCHAIN=local"),
	}
	initial, err := packages.Load(cfg, verifiedPkgs...)
	if err != nil {
		return nil, err
	}
	var errs []string
	packages.Visit(initial, nil, func(p *packages.Package) {
		for _, e := range p.Errors {
			errs = append(errs, e.Error())
		}
	})
	if len(errs) > 0 {
		return nil, fmt.Errorf("package load errors:\n%s", strings.Join(errs, "\n"))
	}
	prog, _ := ssautil.AllPackages(initial, ssa.GlobalDebug)
	prog.Build()
	e := &Eng{repo: repo, fset: fset, prog: prog, pkgs: map[string]*packages.Package{}, ssapkgs: map[string]*ssa.Package{},
		allpkgs: map[string]*packages.Package{}, tags: map[string]int{}, tagTypes: map[int]types.Type{}, strs: map[string]int{"": 0},
		funcs: map[string]*ssa.Function{}, methIDs: map[string]int{}, implCache: map[string][]types.Type{}}
	pkgDirs := map[string]string{}
	packages.Visit(initial, nil, func(p *packages.Package) { e.allpkgs[p.PkgPath] = p })
	for _, p := range initial {
		e.pkgs[p.PkgPath] = p
		sp := prog.Package(p.Types)
		e.ssapkgs[p.PkgPath] = sp
		if len(p.GoFiles) > 0 {
			d := p.GoFiles[0]
			pkgDirs[p.PkgPath] = d[:strings.LastIndex(d, "/")]
		}
		// index functions
		for _, m := range sp.Members {
			switch m := m.(type) {
			case *ssa.Function:
				e.indexFunc(m)
			case *ssa.Type:
				for _, T := range []types.Type{m.Type(), types.NewPointer(m.Type())} {
					ms := prog.MethodSets.MethodSet(T)
					for i := 0; i < ms.Len(); i++ {
						sel := ms.At(i)
						fo, ok := sel.Obj().(*types.Func)
						if !ok {
							continue
						}
						fn := prog.FuncValue(fo.Origin())
						if fn != nil && fn.Pkg == sp {
							e.indexFunc(fn)
						}
					}
				}
			}
		}
	}
	e.con, err = loadContracts(repo, pkgDirs)
	if err != nil {
		return nil, err
	}
	return e, nil
}

func (e *Eng) indexFunc(fn *ssa.Function) {
	if fn == nil || fn.Pkg == nil {
		return
	}
	key := fn.Pkg.Pkg.Path() + "." + relName(fn)
	if _, ok := e.funcs[key]; ok {
		return
	}
	e.funcs[key] = fn
	for _, a := range fn.AnonFuncs {
		e.indexAnon(a)
	}
}

func (e *Eng) indexAnon(fn *ssa.Function) {
	key := fn.Pkg.Pkg.Path() + "." + relName(fn)
	e.funcs[key] = fn
	for _, a := range fn.AnonFuncs {
		e.indexAnon(a)
	}
}

// relName: SSA relative name with type parameters stripped, e.g. (*smoothStats).acquirePermits, Apply$1 -> (*executor).Apply$1
func relName(fn *ssa.Function) string {
	if fn.Parent() != nil {
		// closure: name like "Apply$1"; prefix by parent's receiver
		p := fn
		for p.Parent() != nil {
			p = p.Parent()
		}
		pn := relName(p)
		// pn = (*T).Apply ; fn.Name() = Apply$1$2
		base := p.Name()
		suffix := strings.TrimPrefix(fn.Name(), base)
		return pn + suffix
	}
	n := fn.RelString(fn.Pkg.Pkg)
	return stripTypeArgs(n)
}

func stripTypeArgs(n string) string {
	// removes type-argument lists ("[R]", "[go.shape.int]", "[K, V]") but keeps slice / array / map brackets: "[]error"
	// and "error" are different types (an earlier version stripped every bracket, which made
	// interface{Unwrap() []error} and interface{Unwrap() error} the same key)
	var b strings.Builder
	rs := []rune(n)
	for i := 0; i < len(rs); i++ {
		c := rs[i]
		if c != '[' {
			b.WriteRune(c)
			continue
		}
		// matching bracket
		d, k := 0, i
		for ; k < len(rs); k++ {
			if rs[k] == '[' {
				d++
			} else if rs[k] == ']' {
				d--
				if d == 0 {
					break
				}
			}
		}
		if k >= len(rs) {
			b.WriteString(string(rs[i:]))
			break
		}
		inner := string(rs[i+1 : k])
		keep := inner == ""
		if !keep {
			digits := true
			for _, x := range inner {
				if x < '0' || x > '9' {
					digits = false
				}
			}
			keep = digits
		}
		if !keep && i >= 3 && string(rs[i-3:i]) == "map" {
			keep = true
		}
		if keep {
			b.WriteRune('[')
			b.WriteString(stripTypeArgs(inner))
			b.WriteRune(']')
		}
		i = k
	}
	return b.String()
}

func fullName(fn *ssa.Function) string {
	if fn.Pkg == nil {
		if fn.Origin() != nil && fn.Origin() != fn {
			return fullName(fn.Origin())
		}
		// synthetic / foreign without package
		return stripTypeArgs(fn.String())
	}
	return fn.Pkg.Pkg.Path() + "." + relName(fn)
}

func (e *Eng) inModule(fn *ssa.Function) bool {
	if fn.Pkg == nil {
		return false
	}
	_, ok := e.pkgs[fn.Pkg.Pkg.Path()]
	return ok
}

// allModuleTypes: every named non-interface type of the module, as value and pointer type.
func (e *Eng) allModuleTypes() []types.Type {
	if e.modTypes != nil {
		return e.modTypes
	}
	var paths []string
	for p := range e.pkgs {
		paths = append(paths, p)
	}
	sort.Strings(paths)
	for _, p := range paths {
		scope := e.pkgs[p].Types.Scope()
		for _, n := range scope.Names() {
			tn, ok := scope.Lookup(n).(*types.TypeName)
			if !ok || tn.IsAlias() {
				continue
			}
			T := tn.Type()
			if _, isI := T.Underlying().(*types.Interface); isI {
				continue
			}
			e.modTypes = append(e.modTypes, T, types.NewPointer(T))
		}
	}
	return e.modTypes
}

// ---- type helpers ----

func typeKey(t types.Type) string {
	// canonical name with type arguments erased
	switch t := t.(type) {
	case *types.Pointer:
		return "*" + typeKey(t.Elem())
	case *types.Named:
		o := t.Obj()
		if o.Pkg() != nil {
			return o.Pkg().Path() + "." + o.Name()
		}
		return o.Name()
	case *types.Alias:
		return typeKey(types.Unalias(t))
	case *types.Slice:
		return "[]" + typeKey(t.Elem())
	case *types.TypeParam:
		return "$T"
	}
	return stripTypeArgs(types.TypeString(t, nil))
}

func (e *Eng) tagOf(t types.Type) int {
	k := typeKey(t)
	if id, ok := e.tags[k]; ok {
		return id
	}
	id := len(e.tags) + 1
	e.tags[k] = id
	e.tagTypes[id] = t
	return id
}

func (e *Eng) strID(s string) int {
	if id, ok := e.strs[s]; ok {
		return id
	}
	id := len(e.strs)
	e.strs[s] = id
	return id
}

func (e *Eng) methID(name string) int {
	if id, ok := e.methIDs[name]; ok {
		return id
	}
	id := len(e.methIDs) + 1
	e.methIDs[name] = id
	return id
}

func kindOfType(t types.Type) Kind {
	if t == nil {
		return KUnit
	}
	if tp, ok := types.Unalias(t).(*types.TypeParam); ok {
		if integerTypeParam(tp) {
			return KInt
		}
		return KOpaque
	}
	switch u := t.Underlying().(type) {
	case *types.Basic:
		switch {
		case u.Info()&types.IsBoolean != 0:
			return KBool
		case u.Info()&types.IsInteger != 0:
			return KInt
		case u.Kind() == types.Float32:
			return KF32
		case u.Kind() == types.Float64, u.Kind() == types.UntypedFloat:
			return KF64
		case u.Info()&types.IsString != 0:
			return KStr
		case u.Kind() == types.UntypedNil:
			return KRef
		case u.Kind() == types.UnsafePointer:
			return KRef
		}
	case *types.Pointer, *types.Chan, *types.Map:
		return KRef
	case *types.Interface:
		return KIface
	case *types.Signature:
		return KFunc
	case *types.Struct:
		return KStruct
	case *types.Slice:
		return KSlice
	case *types.Tuple:
		if u.Len() == 0 {
			return KUnit
		}
		return KTuple
	case *types.Array:
		return KStruct // arrays handled as unsupported later
	}
	return KInt
}

// integerTypeParam: the type parameter's constraint admits integer types only (e.g. ~int | ~int64 | ~uint | ~uint64).
func integerTypeParam(tp *types.TypeParam) bool {
	c := tp.Constraint()
	if c == nil {
		return false
	}
	it, ok := c.Underlying().(*types.Interface)
	if !ok || it.NumEmbeddeds() == 0 {
		return false
	}
	for i := 0; i < it.NumEmbeddeds(); i++ {
		u, ok := it.EmbeddedType(i).(*types.Union)
		if !ok {
			return false
		}
		for j := 0; j < u.Len(); j++ {
			b, ok := u.Term(j).Type().Underlying().(*types.Basic)
			if !ok || b.Info()&types.IsInteger == 0 {
				return false
			}
		}
	}
	return true
}

// intRange returns min,max decimal strings for an integer type; ok=false for non-integers.
func intRange(t types.Type) (string, string, bool) {
	if tp, ok := types.Unalias(t).(*types.TypeParam); ok && integerTypeParam(tp) {
		// unknown integer type: the int64/uint64 intersection is the safe range for the non-negative uses in this module
		return "-9223372036854775808", "9223372036854775807", true
	}
	b, ok := t.Underlying().(*types.Basic)
	if !ok || b.Info()&types.IsInteger == 0 {
		return "", "", false
	}
	switch b.Kind() {
	case types.Int, types.Int64, types.UntypedInt:
		return "-9223372036854775808", "9223372036854775807", true
	case types.Int32, types.UntypedRune:
		return "-2147483648", "2147483647", true
	case types.Int16:
		return "-32768", "32767", true
	case types.Int8:
		return "-128", "127", true
	case types.Uint, types.Uint64, types.Uintptr:
		return "0", "18446744073709551615", true
	case types.Uint32:
		return "0", "4294967295", true
	case types.Uint16:
		return "0", "65535", true
	case types.Uint8:
		return "0", "255", true
	}
	return "", "", false
}

func inRangeTerm(x string, t types.Type) string {
	if gBV {
		return tTrue
	}
	lo, hi, ok := intRange(t)
	if !ok {
		return tTrue
	}
	return sAnd("(<= "+sBigInt(lo)+" "+x+")", "(<= "+x+" "+sBigInt(hi)+")")
}

func isUnsigned(t types.Type) bool {
	b, ok := t.Underlying().(*types.Basic)
	return ok && b.Info()&types.IsUnsigned != 0
}

// structOf returns the struct type behind t (through named / pointer when deref).
func structOf(t types.Type) *types.Struct {
	if t == nil {
		return nil
	}
	s, _ := t.Underlying().(*types.Struct)
	return s
}

func derefType(t types.Type) types.Type {
	if p, ok := t.Underlying().(*types.Pointer); ok {
		return p.Elem()
	}
	return nil
}

// ---- Task: one verification context (one root function or lemma) ----

type Obligation struct {
	Name    string
	Label   string
	Kind    string
	Fn      string
	Pc      string
	Goal    string
	NAssert int // prefix of task.asserts that is in scope
	Src     string
	Props   []string
	Expr    string // source text of the clause, when any
	task    *Task
	Result  *SolverResult
	Extra   []string // extra assertions (known-finding carve outs)
}

type Task struct {
	eng       *Eng
	name      string
	decls     []string
	declared  map[string]string
	asserts   []string
	assertTag map[int]*assertTag // assumptions that come from a callee contract's ensures clause (index into asserts)
	obls      []*Obligation
	nfresh    int
	modelSyms []string
	errs      []string
	assumed   map[string]bool // trusted contracts / builtin models used
	arrSort   map[string]string
	epochs    int
	bv        bool // 64-bit vector integer mode
	requiresListed []string
	oretDecl  map[string]bool
	pureDone  map[string]bool
	covers    []*Obligation
	callCovers [][2]*Obligation // per contract application: path reachable before / after assuming the callee's postconditions
	inlined   map[string]bool
	contractsUsed map[string]bool
	rootCon       *FuncContract // the contract this task verifies
	curFn     string
	rndApps   [][2]string
	realInt   map[string]bool
	absMul    bool
	pendingLets map[string]Val
	modelNames map[string]string // get-value term -> witness name
	nfn        int
	fnNames    []string // full names of the function identities declared in this task
	useReentr  bool
	quantDepth int
	unfoldDepth int
	lateFacts  []string          // facts about ghost identities: valid everywhere, added to every query
}

func newTask(e *Eng, name string) *Task {
	t := &Task{eng: e, name: name, declared: map[string]string{}, assumed: map[string]bool{}, arrSort: map[string]string{},
		oretDecl: map[string]bool{}, pureDone: map[string]bool{}, inlined: map[string]bool{}, contractsUsed: map[string]bool{}}
	return t
}

func (t *Task) errorf(f string, a ...interface{}) {
	msg := fmt.Sprintf(f, a...)
	for _, x := range t.errs {
		if x == msg {
			return
		}
	}
	t.errs = append(t.errs, msg)
}

func (t *Task) declare(name, sort string) string {
	q := smtName(name)
	if s, ok := t.declared[q]; ok {
		if s != sort {
			t.errorf("symbol %s declared with sorts %s and %s", name, s, sort)
		}
		return q
	}
	t.declared[q] = sort
	t.decls = append(t.decls, "(declare-fun "+q+" () "+sort+")")
	return q
}

func (t *Task) declareFun(name string, args []string, ret string) string {
	q := smtName(name)
	sig := "(" + strings.Join(args, " ") + ") " + ret
	if s, ok := t.declared[q]; ok {
		if s != sig {
			t.errorf("function %s declared with signatures %s and %s", name, s, sig)
		}
		return q
	}
	t.declared[q] = sig
	t.decls = append(t.decls, "(declare-fun "+q+" "+sig+")")
	return q
}

func (t *Task) define(text string, name string) {
	q := smtName(name)
	if _, ok := t.declared[q]; ok {
		return
	}
	t.declared[q] = "defined"
	t.decls = append(t.decls, text)
}

func (t *Task) fresh(prefix, sort string) string {
	t.nfresh++
	return t.declare(fmt.Sprintf("%s!%d", prefix, t.nfresh), sort)
}

func (t *Task) assume(pc, fact string) {
	if t.quantDepth > 0 {
		return // side facts about terms with bound variables cannot be stated outside the binder
	}
	f := sImp(pc, fact)
	if f == tTrue {
		return
	}
	t.asserts = append(t.asserts, f)
}

func (t *Task) oblige(kind, name, label, pc, goal, src, expr string) *Obligation {
	o := &Obligation{Name: name, Label: label, Kind: kind, Fn: t.curFn, Pc: pc, Goal: goal, NAssert: len(t.asserts), Src: src, Expr: expr, task: t}
	o.Props = propsOfLabel(label)
	t.obls = append(t.obls, o)
	return o
}

// ---- heap access ----

func (t *Task) newEpochState(pc string) *State {
	t.epochs++
	return &State{pc: pc, heap: map[string]string{}, base: &stateBase{epoch: t.epochs}}
}

func (t *Task) sortOfArray(name string) string {
	s, ok := t.arrSort[name]
	if !ok {
		t.errorf("internal: array %s has no sort", name)
		return "Int"
	}
	return s
}

func (t *Task) regArray(name, sort string) {
	if s, ok := t.arrSort[name]; ok {
		if s != sort {
			t.errorf("array %s used with sorts %s and %s", name, s, sort)
		}
		return
	}
	t.arrSort[name] = sort
}

// lookup returns the current term of a heap array / ghost scalar in state s.
func (t *Task) lookup(s *State, name string) string {
	if v, ok := s.heap[name]; ok {
		return v
	}
	var v string
	b := s.base
	switch {
	case b.merge != nil:
		terms := make([]string, len(b.merge))
		same := true
		for i, m := range b.merge {
			terms[i] = t.lookup(m.st, name)
			if terms[i] != terms[0] {
				same = false
			}
		}
		if same {
			v = terms[0]
		} else {
			v = t.fresh(name+"@m", t.sortOfArray(name))
			for i, m := range b.merge {
				t.asserts = append(t.asserts, sImp(m.pc, sEq(v, terms[i])))
			}
		}
	case b.havocFrom != nil:
		if b.keep != nil && b.keep(name) {
			v = t.lookup(b.havocFrom, name)
		} else {
			v = t.fresh(name+"@h", t.sortOfArray(name))
			// private allocations of the pre-state keep their contents across *foreign* code (an opaque call cannot reach
			// them); a loop head is different: the loop body itself writes them
			for _, p := range b.havocFrom.private {
				if b.loopHavoc {
					break
				}
				if strings.HasPrefix(name, p.prefix) && strings.HasPrefix(t.sortOfArray(name), "(Array Int") {
					old := t.lookup(b.havocFrom, name)
					t.asserts = append(t.asserts, sEq(sApp("select", v, p.ref), sApp("select", old, p.ref)))
				}
			}
		}
	default:
		v = t.declare(fmt.Sprintf("%s@%d", name, b.epoch), t.sortOfArray(name))
	}
	s.heap[name] = v
	return v
}

func (t *Task) set(s *State, name, term string) {
	s.heap[name] = term
}

// mergeStates joins predecessor states (each with its own pc).
func (t *Task) mergeStates(edges []mergeEdge) *State {
	var live []mergeEdge
	for _, e := range edges {
		if e.st != nil && !e.st.dead && e.pc != tFalse {
			live = append(live, e)
		}
	}
	if len(live) == 0 {
		return nil
	}
	if len(live) == 1 {
		n := live[0].st.clone()
		n.pc = live[0].pc
		return n
	}
	pcs := make([]string, len(live))
	for i, e := range live {
		pcs[i] = e.pc
	}
	pc := t.fresh("pc", "Bool")
	t.asserts = append(t.asserts, sEq(pc, sOr(pcs...)))
	n := &State{pc: pc, heap: map[string]string{}, base: &stateBase{merge: live}}
	// private refs: intersection
	cnt := map[privRef]int{}
	for _, e := range live {
		for _, p := range e.st.private {
			cnt[p]++
		}
	}
	for _, p := range live[0].st.private {
		if cnt[p] == len(live) {
			n.private = append(n.private, p)
		}
	}
	// eagerly merge arrays that any predecessor has touched (keeps terms local)
	seen := map[string]bool{}
	for _, e := range live {
		for _, k := range e.st.keys() {
			if !seen[k] {
				seen[k] = true
			}
		}
	}
	var ks []string
	for k := range seen {
		ks = append(ks, k)
	}
	sort.Strings(ks)
	for _, k := range ks {
		t.lookup(n, k)
	}
	return n
}

// havocState returns a successor of s in which every heap array is unknown except
// those for which keep returns true (and ghost control arrays, names starting with '$').
func (t *Task) havocState(s *State, keep func(string) bool) *State {
	n := &State{pc: s.pc, heap: map[string]string{}, private: append([]privRef(nil), s.private...)}
	n.base = &stateBase{havocFrom: s, keep: func(name string) bool {
		if strings.HasPrefix(name, "$") {
			return true
		}
		return keep != nil && keep(name)
	}}
	return n
}

// ---- leaves of a Go type: how a value of type T is laid out in arrays ----

type leaf struct {
	path string // "" for scalar pointee, else ".f.g" / ".f#ptr"
	kind Kind
	typ  types.Type
}

func (t *Task) leavesOf(T types.Type) []leaf {
	var out []leaf
	var walk func(T types.Type, path string, depth int)
	walk = func(T types.Type, path string, depth int) {
		if depth > 6 {
			t.errorf("type nesting too deep at %s", path)
			return
		}
		switch kindOfType(T) {
		case KStruct:
			st := structOf(T)
			if st == nil {
				t.errorf("unsupported composite type %s", T)
				return
			}
			for i := 0; i < st.NumFields(); i++ {
				f := st.Field(i)
				if f.Name() == "_" {
					continue
				}
				walk(f.Type(), path+"."+f.Name(), depth+1)
			}
		case KSlice:
			out = append(out, leaf{path + "#ptr", KRef, T}, leaf{path + "#len", KInt, types.Typ[types.Int]})
		case KTuple, KUnit:
		default:
			out = append(out, leaf{path, kindOfType(T), T})
		}
	}
	walk(T, "", 0)
	return out
}

// prefixFor gives the array-name prefix for objects of pointee type T.
func prefixFor(T types.Type) string {
	if structOf(T) != nil {
		if _, ok := types.Unalias(T).(*types.Named); ok {
			return typeKey(T)
		}
		return "anon:" + typeKey(T)
	}
	return "cell:" + typeKey(T)
}

// locOf returns prefix, ref term, idx for a pointer value with pointee type T.
func locOf(p Val, T types.Type) (string, string, string) {
	if p.Loc != nil {
		return p.Loc.Prefix, p.S, p.Loc.Idx
	}
	return prefixFor(T), p.S, ""
}

func (t *Task) readLeaf(s *State, prefix, path, ref, idx string, k Kind) string {
	name := prefix + path
	es := sortOfKind(k)
	if idx == "" {
		t.regArray(name, "(Array Int "+es+")")
		return sApp("select", t.lookup(s, name), ref)
	}
	t.regArray(name, "(Array Int (Array Int "+es+"))")
	return sApp("select", sApp("select", t.lookup(s, name), ref), idx)
}

func (t *Task) writeLeaf(s *State, prefix, path, ref, idx string, k Kind, val string) {
	name := prefix + path
	es := sortOfKind(k)
	var nt string
	if idx == "" {
		t.regArray(name, "(Array Int "+es+")")
		nt = sApp("store", t.lookup(s, name), ref, val)
	} else {
		t.regArray(name, "(Array Int (Array Int "+es+"))")
		cur := t.lookup(s, name)
		nt = sApp("store", cur, ref, sApp("store", sApp("select", cur, ref), idx, val))
	}
	// name the new array to keep terms small
	c := t.fresh(name+"@s", t.sortOfArray(name))
	t.asserts = append(t.asserts, sEq(c, nt))
	s.heap[name] = c
}

// load reads a value of type T from location (prefix, ref, idx).
func (t *Task) load(s *State, prefix, ref, idx string, T types.Type) Val {
	return t.loadAt(s, prefix, "", ref, idx, T)
}

func (t *Task) loadAt(s *State, prefix, path, ref, idx string, T types.Type) Val {
	switch k := kindOfType(T); k {
	case KStruct:
		st := structOf(T)
		if st == nil {
			t.errorf("unsupported load of type %s", T)
			return Val{K: KInt, S: "0", T: T}
		}
		v := Val{K: KStruct, T: T}
		for i := 0; i < st.NumFields(); i++ {
			f := st.Field(i)
			if f.Name() == "_" {
				v.Fields = append(v.Fields, Val{K: KUnit, T: f.Type()})
				continue
			}
			v.Fields = append(v.Fields, t.loadAt(s, prefix, path+"."+f.Name(), ref, idx, f.Type()))
		}
		return v
	case KSlice:
		p := t.readLeaf(s, prefix, path+"#ptr", ref, idx, KRef)
		l := t.readLeaf(s, prefix, path+"#len", ref, idx, KInt)
		t.assume(s.pc, "(and (>= "+l+" 0) (<= "+l+" 4611686018427387904))")
		return Val{K: KSlice, T: T, Fields: []Val{{K: KRef, S: p}, {K: KInt, S: l, T: types.Typ[types.Int]}}}
	case KTuple, KUnit:
		return Val{K: k, T: T}
	default:
		x := t.readLeaf(s, prefix, path, ref, idx, k)
		if k == KInt {
			t.assume(s.pc, inRangeTerm(x, T))
		}
		if k == KFunc {
			t.funcValFact(s.pc, x)
			t.funcTypeFact(s.pc, x, T)
		}
		return Val{K: k, S: x, T: T}
	}
}

func (t *Task) storeAt(s *State, prefix, path, ref, idx string, T types.Type, v Val) {
	switch k := kindOfType(T); k {
	case KStruct:
		st := structOf(T)
		if st == nil || len(v.Fields) != st.NumFields() {
			t.errorf("unsupported store of type %s", T)
			return
		}
		for i := 0; i < st.NumFields(); i++ {
			f := st.Field(i)
			if f.Name() == "_" {
				continue
			}
			t.storeAt(s, prefix, path+"."+f.Name(), ref, idx, f.Type(), v.Fields[i])
		}
	case KSlice:
		if len(v.Fields) < 2 {
			t.errorf("store of malformed slice value")
			return
		}
		t.writeLeaf(s, prefix, path+"#ptr", ref, idx, KRef, v.Fields[0].S)
		t.writeLeaf(s, prefix, path+"#len", ref, idx, KInt, v.Fields[1].S)
	case KTuple, KUnit:
	default:
		if v.K == KRef && v.Loc != nil {
			t.errorf("interior pointer stored to the heap (%s%s): outside the subset", prefix, path)
			return
		}
		t.writeLeaf(s, prefix, path, ref, idx, k, t.coerce(v, k).S)
	}
}

// coerce adapts a value to a scalar kind (e.g. a known closure to its id).
func (t *Task) coerce(v Val, k Kind) Val {
	if v.S == "" && v.isScalar() {
		t.errorf("internal: scalar value without term (kind %s)", v.K)
		v.S = "0"
	}
	return v
}

// zeroValue builds the zero value of type T.
func (t *Task) zeroValue(T types.Type) Val {
	switch k := kindOfType(T); k {
	case KStruct:
		st := structOf(T)
		v := Val{K: KStruct, T: T}
		if st == nil {
			t.errorf("unsupported zero value of %s", T)
			return v
		}
		for i := 0; i < st.NumFields(); i++ {
			if st.Field(i).Name() == "_" {
				v.Fields = append(v.Fields, Val{K: KUnit, T: st.Field(i).Type()})
				continue
			}
			v.Fields = append(v.Fields, t.zeroValue(st.Field(i).Type()))
		}
		return v
	case KSlice:
		return Val{K: KSlice, T: T, Fields: []Val{{K: KRef, S: "0"}, {K: KInt, S: "0", T: types.Typ[types.Int]}}}
	case KBool:
		return Val{K: KBool, S: tFalse, T: T}
	case KF32:
		if !gBV {
			return Val{K: KF32, S: "0.0", T: T}
		}
		return Val{K: KF32, S: "(_ +zero 8 24)", T: T}
	case KF64:
		return Val{K: KF64, S: "0.0", T: T}
	case KTuple, KUnit:
		return Val{K: k, T: T}
	case KOpaque:
		return Val{K: KOpaque, S: t.declare("zero$T", "Int"), T: T}
	default:
		return Val{K: k, S: "0", T: T}
	}
}

// freshValue builds an unconstrained value of type T (with type-range facts assumed under pc).
func (t *Task) freshValue(pc, hint string, T types.Type) Val {
	switch k := kindOfType(T); k {
	case KStruct:
		st := structOf(T)
		v := Val{K: KStruct, T: T}
		if st == nil {
			t.errorf("unsupported fresh value of %s", T)
			return v
		}
		for i := 0; i < st.NumFields(); i++ {
			if st.Field(i).Name() == "_" {
				v.Fields = append(v.Fields, Val{K: KUnit, T: st.Field(i).Type()})
				continue
			}
			v.Fields = append(v.Fields, t.freshValue(pc, hint+"."+st.Field(i).Name(), st.Field(i).Type()))
		}
		return v
	case KSlice:
		p := t.fresh(hint+"#ptr", "Int")
		l := t.fresh(hint+"#len", "Int")
		t.assume(pc, "(and (>= "+l+" 0) (<= "+l+" 4611686018427387904))")
		return Val{K: KSlice, T: T, Fields: []Val{{K: KRef, S: p}, {K: KInt, S: l, T: types.Typ[types.Int]}}}
	case KTuple:
		tu := T.Underlying().(*types.Tuple)
		v := Val{K: KTuple, T: T}
		for i := 0; i < tu.Len(); i++ {
			v.Fields = append(v.Fields, t.freshValue(pc, fmt.Sprintf("%s.%d", hint, i), tu.At(i).Type()))
		}
		return v
	case KUnit:
		return Val{K: KUnit, T: T}
	default:
		x := t.fresh(hint, sortOfKind(k))
		if k == KInt {
			t.assume(pc, inRangeTerm(x, T))
		}
		if k == KFunc {
			t.funcValFact(pc, x)
			t.funcTypeFact(pc, x, T)
		}
		return Val{K: k, S: x, T: T}
	}
}

// mergeVals joins values from several edges into one (fresh constants defined per edge).
func (t *Task) mergeVals(pcs []string, vs []Val, hint string) Val {
	if len(vs) == 1 {
		return vs[0]
	}
	v0 := vs[0]
	switch v0.K {
	case KStruct, KTuple, KSlice:
		out := v0
		out.Fields = make([]Val, len(v0.Fields))
		for i := range v0.Fields {
			sub := make([]Val, len(vs))
			for j := range vs {
				if len(vs[j].Fields) != len(v0.Fields) {
					t.errorf("merge of differently shaped values at %s", hint)
					return v0
				}
				sub[j] = vs[j].Fields[i]
			}
			out.Fields[i] = t.mergeVals(pcs, sub, fmt.Sprintf("%s.%d", hint, i))
		}
		return out
	case KUnit:
		return v0
	}
	same := true
	for _, v := range vs {
		if v.S != v0.S {
			same = false
		}
	}
	out := v0
	for _, v := range vs[1:] {
		if (v.Loc == nil) != (v0.Loc == nil) || (v.Loc != nil && v.Loc.Prefix != v0.Loc.Prefix) {
			t.errorf("merge of pointers of different shapes at %s: outside the subset", hint)
		}
		if v.Clo == nil || v0.Clo == nil || v.Clo.Fn != v0.Clo.Fn {
			out.Clo = nil
		}
		if v.Dyn == nil || v0.Dyn == nil || !types.Identical(v.Dyn, v0.Dyn) {
			out.Dyn = nil
		}
	}
	if out.Clo != nil && !same {
		out.Clo = nil // bindings may differ
	}
	if same {
		if v0.Loc != nil && v0.Loc.Idx != "" {
			for _, v := range vs[1:] {
				if v.Loc.Idx != v0.Loc.Idx {
					same = false
				}
			}
		}
		if same {
			return out
		}
	}
	c := t.fresh(hint+"@phi", v0.sort())
	for i, v := range vs {
		t.asserts = append(t.asserts, sImp(pcs[i], sEq(c, v.S)))
	}
	out.S = c
	if v0.Loc != nil && v0.Loc.Idx != "" {
		ic := t.fresh(hint+"@phiidx", "Int")
		for i, v := range vs {
			t.asserts = append(t.asserts, sImp(pcs[i], sEq(ic, v.Loc.Idx)))
		}
		out.Loc = &Loc{Prefix: v0.Loc.Prefix, Idx: ic}
	}
	return out
}

func posStr(fset *token.FileSet, p token.Pos) string {
	if !p.IsValid() {
		return ""
	}
	pp := fset.Position(p)
	f := pp.Filename
	if k := strings.Index(f, "/repo/"); k >= 0 {
		f = f[k+6:]
	}
	return fmt.Sprintf("%s:%d", f, pp.Line)
}

var _ = ast.Inspect

// assertTag: which clause of which callee contract an assumption of the caller comes from (dependency closure of a check).
type assertTag struct {
	con *FuncContract
	src string
}
