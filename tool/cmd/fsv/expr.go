package main

// Contract expression language: Go expressions (go/parser) plus
//   a ==> b, forall x int :: e, exists x int :: e, old(e), ite(c,a,b), result, result_i, ...
// evaluated against a symbolic state.

import (
	"fmt"
	"sort"
	"go/ast"
	"go/constant"
	"go/parser"
	"go/token"
	"go/types"
	"strconv"
	"strings"

	"golang.org/x/tools/go/ssa"
)

type ExprEnv struct {
	t    *Task
	a    *Activation // may be nil (lemmas)
	st   *State
	old  *State
	vars map[string]Val
	pkg  string // package path for name resolution
	src  string
	callBase *State // state whose $calls is the base for ret()/arg() (function entry / pre-call)
}

func (a *Activation) exprEnv(st *State, extra map[string]Val) *ExprEnv {
	env := &ExprEnv{t: a.t, a: a, st: st, old: a.entry, vars: map[string]Val{}, callBase: a.entry}
	if a.fn.Pkg != nil {
		env.pkg = a.fn.Pkg.Pkg.Path()
	} else if a.fn.Origin() != nil && a.fn.Origin().Pkg != nil {
		env.pkg = a.fn.Origin().Pkg.Pkg.Path()
	}
	for k, v := range a.params {
		env.vars[k] = v
	}
	for k, v := range a.lets {
		env.vars[k] = v
	}
	for k, v := range extra {
		env.vars[k] = v
	}
	return env
}

// ---- preprocessing: ==>, forall/exists ----

// preprocess rewrites the extended syntax into plain Go call syntax understood by go/parser.
func preprocess(s string) (string, error) {
	s = strings.TrimSpace(s)
	return rewriteExpr(s)
}

func rewriteExpr(s string) (string, error) {
	s = strings.TrimSpace(s)
	// quantifier prefix at this level
	for _, q := range []string{"forall", "exists"} {
		if strings.HasPrefix(s, q+" ") {
			k := topLevelIndex(s, "::")
			if k < 0 {
				return "", fmt.Errorf("quantifier without '::' in %q", s)
			}
			binders := strings.TrimSpace(s[len(q):k])
			body, err := rewriteExpr(s[k+2:])
			if err != nil {
				return "", err
			}
			return fmt.Sprintf("%s_(%s, %s)", q, strconv.Quote(binders), body), nil
		}
	}
	// implication (right associative, lowest precedence)
	if k := topLevelIndex(s, "==>"); k >= 0 {
		l, err := rewriteExpr(s[:k])
		if err != nil {
			return "", err
		}
		r, err := rewriteExpr(s[k+3:])
		if err != nil {
			return "", err
		}
		return "imp_(" + l + ", " + r + ")", nil
	}
	// recurse into parenthesised / bracketed groups and call arguments
	var b strings.Builder
	i := 0
	for i < len(s) {
		c := s[i]
		switch c {
		case '"':
			j := i + 1
			for j < len(s) && s[j] != '"' {
				if s[j] == '\\' {
					j++
				}
				j++
			}
			if j >= len(s) {
				return "", fmt.Errorf("unterminated string in %q", s)
			}
			b.WriteString(s[i : j+1])
			i = j + 1
		case '(', '[':
			close := byte(')')
			if c == '[' {
				close = ']'
			}
			j := matchClose(s, i, c, close)
			if j < 0 {
				return "", fmt.Errorf("unbalanced %q in %q", string(c), s)
			}
			inner := s[i+1 : j]
			// split on top-level commas, rewrite each part
			parts := splitTop(inner, ',')
			for pi, p := range parts {
				if strings.TrimSpace(p) == "" {
					continue
				}
				rp, err := rewriteExpr(p)
				if err != nil {
					return "", err
				}
				parts[pi] = rp
			}
			b.WriteByte(c)
			b.WriteString(strings.Join(parts, ", "))
			b.WriteByte(close)
			i = j + 1
		default:
			b.WriteByte(c)
			i++
		}
	}
	return b.String(), nil
}

func matchClose(s string, i int, open, close byte) int {
	d := 0
	for j := i; j < len(s); j++ {
		switch s[j] {
		case '"':
			j++
			for j < len(s) && s[j] != '"' {
				if s[j] == '\\' {
					j++
				}
				j++
			}
		case '(', '[', '{':
			d++
		case ')', ']', '}':
			d--
			if d == 0 {
				if s[j] == close {
					return j
				}
				return -1
			}
		}
	}
	return -1
}

func topLevelIndex(s, tok string) int {
	d := 0
	for i := 0; i < len(s); i++ {
		switch s[i] {
		case '"':
			i++
			for i < len(s) && s[i] != '"' {
				if s[i] == '\\' {
					i++
				}
				i++
			}
		case '(', '[', '{':
			d++
		case ')', ']', '}':
			d--
		default:
			if d == 0 && strings.HasPrefix(s[i:], tok) {
				return i
			}
		}
	}
	return -1
}

func splitTop(s string, sep byte) []string {
	var out []string
	d := 0
	last := 0
	for i := 0; i < len(s); i++ {
		switch s[i] {
		case '"':
			i++
			for i < len(s) && s[i] != '"' {
				if s[i] == '\\' {
					i++
				}
				i++
			}
		case '(', '[', '{':
			d++
		case ')', ']', '}':
			d--
		default:
			if d == 0 && s[i] == sep {
				out = append(out, s[last:i])
				last = i + 1
			}
		}
	}
	out = append(out, s[last:])
	return out
}

func parseSpec(s string) (ast.Expr, error) {
	p, err := preprocess(s)
	if err != nil {
		return nil, err
	}
	e, err := parser.ParseExpr(p)
	if err != nil {
		return nil, fmt.Errorf("%v (after preprocessing: %s)", err, p)
	}
	return e, nil
}

// ---- evaluation ----

func (env *ExprEnv) fail(f string, a ...interface{}) Val {
	env.t.errorf("%s: %s", env.src, fmt.Sprintf(f, a...))
	return Val{K: KBool, S: tTrue}
}

func (env *ExprEnv) evalBool(expr, src string) string {
	v := env.evalSrc(expr, src)
	if v.K != KBool {
		env.t.errorf("%s: expression is not boolean: %s", src, expr)
		return tTrue
	}
	return v.S
}

func (env *ExprEnv) evalInt(expr, src string) string {
	v := env.evalSrc(expr, src)
	if v.K != KInt {
		env.t.errorf("%s: expression is not an integer: %s", src, expr)
		return "0"
	}
	return v.S
}

func (env *ExprEnv) evalSrc(expr, src string) Val {
	env.src = src
	e, err := parseSpec(expr)
	if err != nil {
		env.t.errorf("%s: cannot parse %q: %v", src, expr, err)
		return Val{K: KBool, S: tTrue}
	}
	return env.eval(e)
}

func (env *ExprEnv) withState(st *State) *ExprEnv {
	n := *env
	n.st = st
	return &n
}

func (env *ExprEnv) eval(e ast.Expr) Val {
	t := env.t
	switch e := e.(type) {
	case *ast.ParenExpr:
		return env.eval(e.X)
	case *ast.BasicLit:
		switch e.Kind {
		case token.INT:
			return Val{K: KInt, S: t.intLit(e.Value), T: types.Typ[types.Int]}
		case token.FLOAT:
			cv := constant.MakeFromLiteral(e.Value, token.FLOAT, 0)
			return Val{K: KF64, S: realLit(cv), T: types.Typ[types.Float64]}
		case token.STRING:
			s, _ := strconv.Unquote(e.Value)
			return Val{K: KStr, S: sInt(int64(t.eng.strID(s))), T: types.Typ[types.String]}
		}
	case *ast.Ident:
		return env.ident(e.Name)
	case *ast.UnaryExpr:
		x := env.eval(e.X)
		switch e.Op {
		case token.NOT:
			return boolVal(sNot(x.S))
		case token.SUB:
			if x.K == KF64 {
				return Val{K: KF64, S: "(- " + x.S + ")", T: x.T}
			}
			if t.bv {
				return Val{K: KInt, S: "(bvneg " + x.S + ")", T: x.T}
			}
			return Val{K: KInt, S: "(- " + x.S + ")", T: x.T}
		case token.AND:
			return x // &x of a pointer-valued thing: identity in specs
		}
	case *ast.StarExpr:
		p := env.eval(e.X)
		T := derefType(p.T)
		if T == nil {
			return env.fail("dereference of non-pointer")
		}
		prefix, ref, idx := locOf(p, T)
		return t.load(env.st, prefix, ref, idx, T)
	case *ast.BinaryExpr:
		return env.binary(e)
	case *ast.SelectorExpr:
		return env.selector(e)
	case *ast.CallExpr:
		return env.callExpr(e)
	case *ast.IndexExpr:
		x := env.eval(e.X)
		i := env.eval(e.Index)
		switch x.K {
		case KMap:
			r := *x.Elem
			r.S = sApp("select", x.S, i.S)
			return r
		case KSlice:
			ST := x.T.Underlying().(*types.Slice)
			return t.load(env.st, "elem:"+prefixFor(ST.Elem()), x.Fields[0].S, i.S, ST.Elem())
		}
		if x.Unset {
			return Val{K: KInt, S: t.fresh("unset:[]", "Int"), Unset: true}
		}
		return env.fail("indexing of %s", x.K)
	case *ast.TypeAssertExpr:
		x := env.eval(e.X)
		T := env.resolveType(e.Type)
		if T == nil {
			return env.fail("unknown type in assertion")
		}
		v := t.unbox(env.st, x, T)
		v.T = T
		return v
	}
	return env.fail("unsupported expression %T", e)
}

func (env *ExprEnv) ident(name string) Val {
	t := env.t
	switch name {
	case "true":
		return boolVal(tTrue)
	case "false":
		return boolVal(tFalse)
	case "nil":
		return Val{K: KRef, S: "0"}
	case "result":
		if _, isParam := env.vars["result"]; !isParam {
			if v, ok := env.vars["result_0"]; ok {
				return v
			}
		}
	}
	if env.a != nil && env.a.fn != nil {
		if _, shadow := env.vars["$nofv:"+name]; !shadow {
			for i, fv := range env.a.fn.FreeVars {
				if fv.Name() == name {
					if cell, ok := env.a.env[fv]; ok {
						T := derefType(fv.Type())
						_ = i
						if kindOfType(T) == KStruct {
							// a captured struct variable (e.g. an atomic cell): specifications talk about it through its address
							return cell
						}
						prefix, ref, idx := locOf(cell, T)
						return t.load(env.st, prefix, ref, idx, T)
					}
				}
			}
		}
	}
	if v, ok := env.vars[name]; ok {
		return v
	}
	if ce, ok := t.eng.con.Consts[name]; ok {
		return env.evalSrc(ce, env.src)
	}
	// local variable of the function under verification (by DebugRef / phi name)
	if env.a != nil {
		if v, ok := env.a.localByName(name, env.st); ok {
			return v
		}
	}
	// package-level constant or variable
	if p := t.eng.pkgs[env.pkg]; p != nil {
		if obj := p.Types.Scope().Lookup(name); obj != nil {
			return env.object(obj)
		}
	}
	return env.fail("unknown identifier %q", name)
}

func (env *ExprEnv) object(obj types.Object) Val {
	t := env.t
	switch o := obj.(type) {
	case *types.Const:
		k := kindOfType(o.Type())
		switch k {
		case KInt:
			return Val{K: KInt, S: t.intLit(o.Val().ExactString()), T: o.Type()}
		case KBool:
			if constant.BoolVal(o.Val()) {
				return boolVal(tTrue)
			}
			return boolVal(tFalse)
		case KStr:
			return Val{K: KStr, S: sInt(int64(t.eng.strID(constant.StringVal(o.Val())))), T: o.Type()}
		case KF64:
			return Val{K: KF64, S: realLit(o.Val()), T: o.Type()}
		}
	case *types.Var:
		sp := t.eng.prog.Package(o.Pkg())
		if sp != nil {
			if g, ok := sp.Members[o.Name()].(*ssa.Global); ok {
				if env.a != nil {
					return env.a.loadGlobal(g, env.st)
				}
				a := &Activation{t: t}
				return a.loadGlobal(g, env.st)
			}
		}
	}
	return env.fail("unsupported package-level object %s", obj.Name())
}

func (env *ExprEnv) binary(e *ast.BinaryExpr) Val {
	t := env.t
	x := env.eval(e.X)
	y := env.eval(e.Y)
	// numeric literal next to a float32 value: a float32 literal
	if t.bv {
		if x.K == KF32 && y.K != KF32 {
			if f, ok := litFloat(e.Y); ok {
				y = Val{K: KF32, S: f32Lit(float32(f)), T: x.T}
			}
		}
		if y.K == KF32 && x.K != KF32 {
			if f, ok := litFloat(e.X); ok {
				x = Val{K: KF32, S: f32Lit(float32(f)), T: y.T}
			}
		}
	} else {
		// outside bv mode float32 values are exact reals
		if x.K == KF32 {
			x.K = KF64
		}
		if y.K == KF32 {
			y.K = KF64
		}
	}
	switch e.Op {
	case token.LAND:
		return boolVal(sAnd(x.S, y.S))
	case token.LOR:
		return boolVal(sOr(x.S, y.S))
	case token.EQL, token.NEQ:
		var eq string
		if x.K == KStruct || x.K == KTuple || x.K == KSlice || y.K == KSlice {
			a := &Activation{t: t}
			eq = a.valEq(x, y)
		} else if x.K == KF32 {
			eq = "(fp.eq " + x.S + " " + y.S + ")"
		} else {
			eq = sEq(x.S, y.S)
		}
		if e.Op == token.NEQ {
			eq = sNot(eq)
		}
		return boolVal(eq)
	}
	if x.K == KF64 || y.K == KF64 {
		// exact real arithmetic in specifications
		xs, ys := x.S, y.S
		if x.K == KInt {
			xs = "(to_real " + xs + ")"
		}
		if y.K == KInt {
			ys = "(to_real " + ys + ")"
		}
		switch e.Op {
		case token.ADD:
			return Val{K: KF64, S: "(+ " + xs + " " + ys + ")", T: types.Typ[types.Float64]}
		case token.SUB:
			return Val{K: KF64, S: "(- " + xs + " " + ys + ")", T: types.Typ[types.Float64]}
		case token.MUL:
			return Val{K: KF64, S: "(* " + xs + " " + ys + ")", T: types.Typ[types.Float64]}
		case token.QUO:
			return Val{K: KF64, S: "(/ " + xs + " " + ys + ")", T: types.Typ[types.Float64]}
		case token.LSS:
			return boolVal("(< " + xs + " " + ys + ")")
		case token.LEQ:
			return boolVal("(<= " + xs + " " + ys + ")")
		case token.GTR:
			return boolVal("(> " + xs + " " + ys + ")")
		case token.GEQ:
			return boolVal("(>= " + xs + " " + ys + ")")
		}
	}
	if x.K == KF32 {
		switch e.Op {
		case token.LSS:
			return boolVal("(fp.lt " + x.S + " " + y.S + ")")
		case token.LEQ:
			return boolVal("(fp.leq " + x.S + " " + y.S + ")")
		case token.GTR:
			return boolVal("(fp.gt " + x.S + " " + y.S + ")")
		case token.GEQ:
			return boolVal("(fp.geq " + x.S + " " + y.S + ")")
		case token.MUL:
			return Val{K: KF32, S: "(fp.mul RNE " + x.S + " " + y.S + ")", T: x.T}
		}
	}
	if t.bv {
		ops := map[token.Token]string{token.ADD: "bvadd", token.SUB: "bvsub", token.MUL: "bvmul", token.QUO: "bvsdiv", token.REM: "bvsrem"}
		cmp := map[token.Token]string{token.LSS: "bvslt", token.LEQ: "bvsle", token.GTR: "bvsgt", token.GEQ: "bvsge"}
		if op, ok := ops[e.Op]; ok {
			return Val{K: KInt, S: sApp(op, x.S, y.S), T: x.T}
		}
		if op, ok := cmp[e.Op]; ok {
			return boolVal(sApp(op, x.S, y.S))
		}
	}
	T := x.T
	if T == nil {
		T = y.T
	}
	switch e.Op {
	case token.ADD:
		return Val{K: KInt, S: "(+ " + x.S + " " + y.S + ")", T: T}
	case token.SUB:
		return Val{K: KInt, S: "(- " + x.S + " " + y.S + ")", T: T}
	case token.MUL:
		return Val{K: KInt, S: "(* " + x.S + " " + y.S + ")", T: T}
	case token.QUO:
		return Val{K: KInt, S: sApp(t.goDiv(), x.S, y.S), T: T}
	case token.REM:
		return Val{K: KInt, S: sApp(t.goMod(), x.S, y.S), T: T}
	case token.LSS:
		return boolVal("(< " + x.S + " " + y.S + ")")
	case token.LEQ:
		return boolVal("(<= " + x.S + " " + y.S + ")")
	case token.GTR:
		return boolVal("(> " + x.S + " " + y.S + ")")
	case token.GEQ:
		return boolVal("(>= " + x.S + " " + y.S + ")")
	}
	return env.fail("unsupported operator %s", e.Op)
}

// selector: x.f (field, promoted field, ghost field, method value of an interface, qualified identifier)
func (env *ExprEnv) selector(e *ast.SelectorExpr) Val {
	// qualified identifier pkg.Name
	if id, ok := e.X.(*ast.Ident); ok {
		if _, isVar := env.vars[id.Name]; !isVar {
			if p := env.findPkgByName(id.Name); p != nil {
				if env.a == nil || !env.a.hasLocal(id.Name) {
					if obj := p.Types.Scope().Lookup(e.Sel.Name); obj != nil {
						return env.object(obj)
					}
				}
			}
		}
	}
	x := env.eval(e.X)
	return env.selectField(x, e.Sel.Name)
}

func (env *ExprEnv) selectField(x Val, name string) Val {
	t := env.t
	if x.K == KIface && x.T == nil {
		return Val{K: KFunc, S: t.mthTerm(name, x.S), T: nil}
	}
	if x.Unset {
		return Val{K: KInt, S: t.fresh("unset:."+name, "Int"), Unset: true}
	}
	if x.T == nil {
		return env.fail("selector .%s on value without type", name)
	}
	// ghost field?
	base := x.T
	if p := derefType(base); p != nil {
		base = p
	}
	if g, ok := t.eng.con.Ghost[typeKey(base)+"."+name]; ok {
		return env.ghostField(x, g)
	}
	// interface method value
	if x.K == KIface {
		return Val{K: KFunc, S: t.mthTerm(name, x.S), T: nil}
	}
	obj, index, _ := types.LookupFieldOrMethod(x.T, true, env.pkgTypes(), name)
	if obj == nil {
		// unexported field of another package (reached through embedding): try the module's packages
		obj, index = env.lookupAnyPkg(x.T, name)
	}
	if obj == nil {
		// ghost field of an embedded type?
		if v, ok := env.ghostThroughEmbedding(x, name); ok {
			return v
		}
		return env.fail("no field %q in %s", name, x.T)
	}
	if _, isFunc := obj.(*types.Func); isFunc {
		return env.fail("method values are not supported in specifications (%s)", name)
	}
	cur := x
	for _, fi := range index {
		cur = env.fieldStep(cur, fi)
	}
	return cur
}

func (env *ExprEnv) lookupAnyPkg(T types.Type, name string) (types.Object, []int) {
	base := T
	if p := derefType(base); p != nil {
		base = p
	}
	if n, ok := types.Unalias(base).(*types.Named); ok && n.Obj().Pkg() != nil {
		if obj, index, _ := types.LookupFieldOrMethod(T, true, n.Obj().Pkg(), name); obj != nil {
			return obj, index
		}
	}
	var paths []string
	for p := range env.t.eng.allpkgs {
		paths = append(paths, p)
	}
	sort.Strings(paths)
	for _, p := range paths {
		pk := env.t.eng.allpkgs[p]
		if pk.Types == nil {
			continue
		}
		if obj, index, _ := types.LookupFieldOrMethod(T, true, pk.Types, name); obj != nil {
			return obj, index
		}
	}
	return nil, nil
}

func (env *ExprEnv) fieldStep(cur Val, fi int) Val {
	t := env.t
	switch cur.K {
	case KRef:
		T := derefType(cur.T)
		if T == nil {
			return env.fail("field access through non-pointer")
		}
		s := structOf(T)
		f := s.Field(fi)
		prefix, ref, idx := locOf(cur, T)
		v := t.loadAt(env.st, prefix, "."+f.Name(), ref, idx, f.Type())
		return v
	case KStruct:
		if fi < len(cur.Fields) {
			return cur.Fields[fi]
		}
	}
	return env.fail("field access on %s", cur.K)
}

func (env *ExprEnv) ghostThroughEmbedding(x Val, name string) (Val, bool) {
	base := x.T
	if p := derefType(base); p != nil {
		base = p
	}
	s := structOf(base)
	if s == nil {
		return Val{}, false
	}
	for i := 0; i < s.NumFields(); i++ {
		f := s.Field(i)
		if !f.Embedded() {
			continue
		}
		ft := f.Type()
		fb := ft
		if p := derefType(ft); p != nil {
			fb = p
		}
		if g, ok := env.t.eng.con.Ghost[typeKey(fb)+"."+name]; ok {
			sub := env.fieldStep(x, i)
			return env.ghostField(sub, g), true
		}
	}
	return Val{}, false
}

func (env *ExprEnv) ghostField(x Val, g *GhostField) Val {
	t := env.t
	name := g.Pkg + "." + g.Type + ".$" + g.Name
	tmpl, sort := env.ghostType(g.GoType)
	t.regArray(name, "(Array Int "+sort+")")
	r := tmpl
	r.S = sApp("select", t.lookup(env.st, name), x.S)
	return r
}

// ghostType maps a ghost type name to a value template and SMT sort.
func (env *ExprEnv) ghostType(gt string) (Val, string) {
	switch gt {
	case "int":
		return Val{K: KInt, T: types.Typ[types.Int]}, "Int"
	case "bool":
		return Val{K: KBool, T: types.Typ[types.Bool]}, "Bool"
	case "ref":
		return Val{K: KRef}, "Int"
	case "iface":
		return Val{K: KIface}, "Int"
	case "map[int]bool":
		el := Val{K: KBool, T: types.Typ[types.Bool]}
		return Val{K: KMap, Sort: "(Array Int Bool)", Elem: &el}, "(Array Int Bool)"
	case "map[int]int":
		el := Val{K: KInt, T: types.Typ[types.Int]}
		return Val{K: KMap, Sort: "(Array Int Int)", Elem: &el}, "(Array Int Int)"
	}
	env.t.errorf("%s: unsupported ghost type %q", env.src, gt)
	return Val{K: KInt}, "Int"
}

func (env *ExprEnv) pkgTypes() *types.Package {
	if p := env.t.eng.pkgs[env.pkg]; p != nil {
		return p.Types
	}
	return nil
}

type pkgLike struct{ Types *types.Package }

func (env *ExprEnv) findPkgByName(name string) *pkgLike {
	if p := env.lookupPkg(name); p != nil {
		return &pkgLike{Types: p}
	}
	return nil
}

func (env *ExprEnv) resolveType(e ast.Expr) types.Type {
	// supports T, *T, pkg.T, *pkg.T, T[...] (type args ignored)
	switch e := e.(type) {
	case *ast.StarExpr:
		T := env.resolveType(e.X)
		if T == nil {
			return nil
		}
		return types.NewPointer(T)
	case *ast.ParenExpr:
		return env.resolveType(e.X)
	case *ast.IndexExpr:
		return env.resolveType(e.X)
	case *ast.InterfaceType:
		// anonymous interface literal, e.g. interface{ Unwrap() error }
		if tv, err := types.Eval(token.NewFileSet(), env.pkgTypes(), token.NoPos, types.ExprString(e)); err == nil {
			return tv.Type
		}
	case *ast.Ident:
		if p := env.pkgTypes(); p != nil {
			if tn, ok := p.Scope().Lookup(e.Name).(*types.TypeName); ok {
				return tn.Type()
			}
		}
		if tn, ok := types.Universe.Lookup(e.Name).(*types.TypeName); ok {
			return tn.Type()
		}
		if len(e.Name) == 1 && e.Name[0] >= 'A' && e.Name[0] <= 'Z' {
			return types.NewTypeParam(types.NewTypeName(token.NoPos, nil, e.Name, nil), types.NewInterfaceType(nil, nil))
		}
	case *ast.SelectorExpr:
		if id, ok := e.X.(*ast.Ident); ok {
			if p := env.lookupPkg(id.Name); p != nil {
				if tn, ok := p.Scope().Lookup(e.Sel.Name).(*types.TypeName); ok {
					return tn.Type()
				}
			}
		}
	}
	return nil
}

func (env *ExprEnv) lookupPkg(name string) *types.Package {
	// Several packages can share a name (sync/atomic, internal/runtime/atomic, ...): the choice must not depend on map
	// order. Preference: a package imported by the contract's own package; then module packages; then the shortest path
	// that is not an internal package; ties broken alphabetically.
	if own := env.pkgTypes(); own != nil {
		var hits []string
		byPath := map[string]*types.Package{}
		for _, imp := range own.Imports() {
			if imp.Name() == name {
				hits = append(hits, imp.Path())
				byPath[imp.Path()] = imp
			}
		}
		sort.Strings(hits)
		if len(hits) > 0 {
			return byPath[hits[0]]
		}
	}
	var cands []string
	for path, p := range env.t.eng.allpkgs {
		if p.Types != nil && p.Types.Name() == name {
			cands = append(cands, path)
		}
	}
	if len(cands) == 0 {
		return nil
	}
	rank := func(path string) int {
		switch {
		case strings.HasPrefix(path, modPath):
			return 0
		case strings.Contains(path, "internal/") || strings.HasPrefix(path, "internal"):
			return 3
		case !strings.Contains(path, "."):
			return 1 // standard library
		}
		return 2
	}
	sort.Slice(cands, func(i, j int) bool {
		ri, rj := rank(cands[i]), rank(cands[j])
		if ri != rj {
			return ri < rj
		}
		if len(cands[i]) != len(cands[j]) {
			return len(cands[i]) < len(cands[j])
		}
		return cands[i] < cands[j]
	})
	return env.t.eng.allpkgs[cands[0]].Types
}

// localByName finds an SSA local by its source name (loop phis by comment, DebugRef'd locals).
func (a *Activation) localByName(name string, st *State) (Val, bool) {
	var found *Val
	n := 0
	for v, x := range a.env {
		switch v := v.(type) {
		case *ssa.Phi:
			if v.Comment == name {
				xx := x
				found = &xx
				n++
			}
		}
	}
	if n == 1 {
		return *found, true
	}
	if n > 1 {
		a.t.errorf("%s: local %q is ambiguous (several phis)", fullName(a.fn), name)
		return *found, true
	}
	// DebugRef-named values
	var cands []ssa.Value
	for _, b := range a.fn.Blocks {
		for _, in := range b.Instrs {
			if d, ok := in.(*ssa.DebugRef); ok && !d.IsAddr {
				if id, ok := d.Expr.(*ast.Ident); ok && id.Name == name {
					if _, have := a.env[d.X]; have {
						dup := false
						for _, c := range cands {
							if c == d.X {
								dup = true
							}
						}
						if !dup {
							cands = append(cands, d.X)
						}
					} else if c, ok := d.X.(*ssa.Const); ok {
						_ = c
						cands = append(cands, d.X)
					}
				}
			}
		}
	}
	if len(cands) == 1 {
		return a.val(cands[0], st), true
	}
	if len(cands) > 1 {
		// several definitions: only usable if all map to the same term
		v0 := a.val(cands[0], st)
		same := true
		for _, c := range cands[1:] {
			if a.val(c, st).S != v0.S {
				same = false
			}
		}
		if same {
			return v0, true
		}
		a.t.errorf("%s: local %q has several definitions; name it through a loop phi or let", fullName(a.fn), name)
		return v0, true
	}
	return Val{}, false
}

func (a *Activation) hasLocal(name string) bool {
	_, ok := a.params[name]
	return ok
}

// assign: ghost assignment "x.g := e" or "x.g[i] := e"
func (env *ExprEnv) assign(lhs, rhs, src string) {
	t := env.t
	env.src = src
	le, err := parseSpec(lhs)
	if err != nil {
		t.errorf("%s: cannot parse %q: %v", src, lhs, err)
		return
	}
	rv := env.evalSrc(rhs, src)
	switch l := le.(type) {
	case *ast.SelectorExpr:
		x := env.eval(l.X)
		g := env.lookupGhost(x, l.Sel.Name)
		if g == nil {
			t.errorf("%s: %s is not a ghost field", src, lhs)
			return
		}
		name := g.Pkg + "." + g.Type + ".$" + g.Name
		_, sort := env.ghostType(g.GoType)
		t.regArray(name, "(Array Int "+sort+")")
		t.set(env.st, name, sApp("store", t.lookup(env.st, name), x.S, rv.S))
	case *ast.IndexExpr:
		sel, ok := l.X.(*ast.SelectorExpr)
		if !ok {
			t.errorf("%s: unsupported ghost assignment target %s", src, lhs)
			return
		}
		x := env.eval(sel.X)
		g := env.lookupGhost(x, sel.Sel.Name)
		if g == nil {
			t.errorf("%s: %s is not a ghost field", src, lhs)
			return
		}
		i := env.eval(l.Index)
		name := g.Pkg + "." + g.Type + ".$" + g.Name
		_, sort := env.ghostType(g.GoType)
		t.regArray(name, "(Array Int "+sort+")")
		cur := t.lookup(env.st, name)
		t.set(env.st, name, sApp("store", cur, x.S, sApp("store", sApp("select", cur, x.S), i.S, rv.S)))
	case *ast.Ident:
		// ghost local. The symbolic execution visits every branch, so the assignment is guarded by the path condition of
		// the state it happens in: on the other paths the variable keeps what it had (or an arbitrary value if it had none).
		nv := rv
		if env.a != nil && env.st != nil && env.st.pc != tTrue && rv.isScalar() {
			if old, ok := env.a.lets[l.Name]; ok && old.isScalar() && old.sort() == rv.sort() {
				nv.S = "(ite " + env.st.pc + " " + rv.S + " " + old.S + ")"
			} else if !ok {
				nv.S = "(ite " + env.st.pc + " " + rv.S + " " + t.fresh("ghost:"+l.Name+"@unset", rv.sort()) + ")"
			}
		}
		if env.a != nil {
			env.a.lets[l.Name] = nv
			if env.a.ghostAssigned == nil {
				env.a.ghostAssigned = map[string]bool{}
			}
			env.a.ghostAssigned[l.Name] = true
		}
		env.vars[l.Name] = nv
	default:
		t.errorf("%s: unsupported ghost assignment target %s", src, lhs)
	}
}

func (env *ExprEnv) lookupGhost(x Val, name string) *GhostField {
	base := x.T
	if base == nil {
		return nil
	}
	if p := derefType(base); p != nil {
		base = p
	}
	return env.t.eng.con.Ghost[typeKey(base)+"."+name]
}

func litFloat(e ast.Expr) (float64, bool) {
	switch e := e.(type) {
	case *ast.ParenExpr:
		return litFloat(e.X)
	case *ast.BasicLit:
		if e.Kind == token.INT || e.Kind == token.FLOAT {
			f, err := strconv.ParseFloat(e.Value, 64)
			return f, err == nil
		}
	case *ast.UnaryExpr:
		if e.Op == token.SUB {
			f, ok := litFloat(e.X)
			return -f, ok
		}
	}
	return 0, false
}

// splitConj splits a specification expression into conjuncts that can be proved separately:
//   A && B            -> A ; B
//   P ==> A && B      -> P ==> A ; P ==> B
// (only at top level; quantifiers and macro calls are left whole). Smaller goals are far more stable for the solvers.
func splitConj(expr string) []string {
	expr = strings.TrimSpace(expr)
	if strings.HasPrefix(expr, "forall ") || strings.HasPrefix(expr, "exists ") {
		return []string{expr}
	}
	if k := topLevelIndex(expr, "==>"); k >= 0 {
		lhs := strings.TrimSpace(expr[:k])
		rhs := strings.TrimSpace(expr[k+3:])
		if topLevelIndex(rhs, "==>") >= 0 || topLevelIndex(rhs, "||") >= 0 {
			return []string{expr}
		}
		parts := splitTopStr(rhs, "&&")
		if len(parts) <= 1 {
			return []string{expr}
		}
		var out []string
		for _, p := range parts {
			out = append(out, "("+lhs+") ==> ("+strings.TrimSpace(p)+")")
		}
		return out
	}
	if topLevelIndex(expr, "||") >= 0 {
		return []string{expr}
	}
	parts := splitTopStr(expr, "&&")
	if len(parts) <= 1 {
		return []string{expr}
	}
	var out []string
	for _, p := range parts {
		p = strings.TrimSpace(p)
		// a parenthesised conjunct may itself be a conjunction / implication
		if strings.HasPrefix(p, "(") && matchClose(p, 0, '(', ')') == len(p)-1 {
			out = append(out, splitConj(p[1:len(p)-1])...)
		} else {
			out = append(out, p)
		}
	}
	return out
}

func splitTopStr(s, tok string) []string {
	var out []string
	for {
		k := topLevelIndex(s, tok)
		if k < 0 {
			out = append(out, s)
			return out
		}
		out = append(out, s[:k])
		s = s[k+len(tok):]
	}
}
