package main

import (
	"encoding/json"
	"fmt"
	"os"
	"path/filepath"
	"sort"
	"strings"
)

// known_findings.json (committed, never written at run time)
type KnownFinding struct {
	Property   string `json:"property"`
	Obligation string `json:"obligation"`
	Except     string `json:"except,omitempty"` // SMT-LIB formula over the obligation's symbols: the listed failing inputs
	What       string `json:"what"`
	Status     string `json:"status"` // known | fixed
	Commit     string `json:"commit,omitempty"`
	Witness    string `json:"witness,omitempty"` // path (relative to /verif) of a Go test that fails on the real code while the finding exists
	WitnessPkg string `json:"witness_pkg,omitempty"`
	WitnessRun string `json:"witness_run,omitempty"`
	Race       bool   `json:"race,omitempty"`
}

type KnownFindings struct {
	Entries []KnownFinding `json:"findings"`
	cache   map[string]bool
}

func loadKnownFindings() *KnownFindings {
	kf := &KnownFindings{cache: map[string]bool{}}
	data, err := os.ReadFile(filepath.Join(verifDir, "known_findings.json"))
	if err != nil {
		return kf
	}
	if err := json.Unmarshal(data, kf); err != nil {
		fmt.Fprintln(os.Stderr, "known_findings.json:", err)
	}
	return kf
}

func (kf *KnownFindings) entriesFor(id string) []*KnownFinding {
	var out []*KnownFinding
	for i := range kf.Entries {
		if kf.Entries[i].Property == id {
			out = append(out, &kf.Entries[i])
		}
	}
	return out
}

func (kf *KnownFindings) match(id string, o *Obligation) *KnownFinding {
	for _, e := range kf.entriesFor(id) {
		if e.Obligation == o.Name {
			return e
		}
	}
	return nil
}

// carveOut: for a known finding with an 'except' formula the obligation is proved under its negation,
// so any other way of breaking the same clause is still reported.
func (kf *KnownFindings) carveOut(id string, o *Obligation) []string {
	e := kf.match(id, o)
	if e == nil || e.Status != "known" || e.Except == "" {
		return nil
	}
	return []string{"(not " + e.Except + ")"}
}

// witnessStillFails replays the committed witness test on the real code; true when it still fails.
func (kf *KnownFindings) witnessStillFails(eng *Eng, e *KnownFinding) bool {
	if e.Witness == "" {
		return false
	}
	if v, ok := kf.cache[e.Witness]; ok {
		return v
	}
	// a schedule-dependent witness (race detector) may need more than one run on a loaded machine
	failed := false
	for attempt := 0; attempt < 3 && !failed; attempt++ {
		res := runOverlayTest(eng.repo, filepath.Join(verifDir, e.Witness), e.WitnessPkg, e.WitnessRun, e.Race)
		failed = res.failed
		if !e.Race {
			break
		}
	}
	kf.cache[e.Witness] = failed
	return failed
}

type violationPath struct {
	file   string
	status string
}

// writeViolation writes the replay file for a failed obligation: the obligation, the solver's verdict and
// model, and (when a replay template exists for the function) the outcome of running the model on the real code.
func writeViolation(eng *Eng, id string, o *Obligation, replay bool) violationPath {
	dir := filepath.Join(verifDir, "replay", "out")
	os.MkdirAll(dir, 0o755)
	file := filepath.Join(dir, sanitize(id+"__"+o.Name)+".txt")
	if o.task != nil && o.task.name != o.Fn && !strings.HasPrefix(o.Name, o.task.name) {
		// the same obligation of an inlined callee can arise under several functions: one file per context
		file = filepath.Join(dir, sanitize(id+"__"+o.Name+"__in__"+o.task.name)+".txt")
	}
	var b strings.Builder
	fmt.Fprintf(&b, "property:    %s\nobligation:  %s\nverified in: %s\nkind:        %s\nfunction:    %s\nclause:      %s\nsource:      %s\nverdict:     %s (by %s, %d ms)\n", id, o.Name, o.task.name, o.Kind, o.Fn, o.Expr, o.Src, o.Result.Status, o.Result.Solver, o.Result.Millis)
	status := "no-failing-input-found"
	if o.Result.Status == "sat" {
		b.WriteString("\ncounter-model (inputs of the function under contract):\n")
		var ks []string
		for k := range o.Result.Model {
			ks = append(ks, k)
		}
		sort.Strings(ks)
		for _, k := range ks {
			if n, ok := o.task.modelNames[k]; ok {
				fmt.Fprintf(&b, "  [%s] %s = %s\n", n, truncate(k, 120), o.Result.Model[k])
			} else {
				fmt.Fprintf(&b, "  %s = %s\n", truncate(k, 200), o.Result.Model[k])
			}
		}
		if replay {
			rr := replayModel(eng, id, o)
			b.WriteString("\nreplay on the real code:\n" + rr.log + "\n")
			if rr.failed {
				status = "fails-on-real-code"
			}
		}
	} else {
		b.WriteString("\nno counter-model: the solvers answered " + o.Result.Status + "\n")
	}
	b.WriteString("\nsolver output:\n" + truncate(o.Result.Output, 6000) + "\n")
	fmt.Fprintf(&b, "\nstatus: %s\n", status)
	os.WriteFile(file, []byte(b.String()), 0o644)
	return violationPath{file, status}
}
