package main

// Contract files: /repo/<pkg>/verif_contracts*.go, build tag "verif", comment-only.
// Every line that starts with "//@" is a directive or the continuation of one.

import (
	"fmt"
	"os"
	"path/filepath"
	"regexp"
	"sort"
	"strconv"
	"strings"
)

type Clause struct {
	Kind  string // requires ensures modifies let ext loopinv loopdec loopmod onwrite hint mode assume guards owns invariant lemma
	Label string
	Name  string // let/ext name, onwrite field
	Loop  int
	Expr  string
	Src   string // file:line
}

type FuncContract struct {
	Pkg     string // package path the file lives in (for name resolution)
	Name    string // SSA relative name without type params, e.g. (*smoothStats).acquirePermits
	Full    string // key: <pkgpath>.<Name>  (for ext: as written)
	Case    string
	Trusted bool // ext: assumed, never verified
	Inline  bool // template method: also inlined at call sites with known receiver
	Clauses []Clause
	Props   []string // property ids this contract serves (derived from labels)
	Src     string
}

type PureFunc struct {
	Pkg    string
	Name   string
	Params [][2]string // name, type
	Ret    string
	Body   string
	Rec    bool
	Unfold bool // recursive, axiomatised by instantiating the definition at its (quantifier-free) use sites, two levels deep
	Src    string
}

type GhostField struct {
	Pkg, Type, Name, GoType string
}

type Monitor struct {
	Pkg     string
	Type    string // receiver type name without *, without type params
	Mutex   string // field name (path) of the mutex
	Guards  []string
	Owns    []string
	Invs    []Clause
	Src     string
	PtrMtx  bool
}

type Lemma struct {
	Pkg   string
	Label string
	Expr  string
	Hints []string
	Src   string
	By    string // "induction <var>" or ""
}

type Contracts struct {
	Funcs    map[string][]*FuncContract // key Full
	Pure     map[string]*PureFunc       // key pkg.Name and bare Name
	PureList []*PureFunc
	Ghost    map[string]*GhostField // key pkg.Type.Name
	Monitors []*Monitor
	Lemmas   []*Lemma
	Frozen   map[string]bool // pkg.Type.field
	Confined map[string]bool
	Files    []string
	TypeInvs map[string][]Clause // pkg.Type -> invariant clauses (receiver "self")
	Axioms   []Clause
	Consts   map[string]string // spec constants name -> expr
	Macros   map[string]*Macro
}

// Macro: a parameterised specification expression evaluated in the state of its use.
type Macro struct {
	Pkg    string
	Name   string
	Params []string
	Body   string
	Src    string
}

var clauseKeywords = map[string]bool{
	"requires": true, "ensures": true, "modifies": true, "let": true, "ext": true, "loop": true,
	"onwrite": true, "hint": true, "mode": true, "assume": true, "guards": true, "owns": true,
	"invariant": true, "inline": true, "props": true, "by": true, "oncall": true, "atexit": true, "havoc": true, "assert": true, "locks": true, "premise": true, "witness": true, "purecalls": true, "oldlet": true, "builder": true, "dyntype": true, "inlinecalls": true, "sendinv": true, "recvinv": true, "summary": true, "use": true, "rely": true, "recorded": true, "beforecall": true, "returnsfresh": true, "reentrant": true, "noexitcover": true, "unguarded": true,
}
var topKeywords = map[string]bool{
	"func": true, "extfunc": true, "pure": true, "ghost": true, "monitor": true, "lemma": true,
	"frozen": true, "confined": true, "typeinv": true, "axiom": true, "const": true, "macro": true,
}

var labelRe = regexp.MustCompile(`^\[([A-Za-z0-9_.+\-]+)\]\s*`)

func loadContracts(repo string, pkgDirs map[string]string) (*Contracts, error) {
	c := &Contracts{Funcs: map[string][]*FuncContract{}, Pure: map[string]*PureFunc{}, Ghost: map[string]*GhostField{},
		Frozen: map[string]bool{}, Confined: map[string]bool{}, TypeInvs: map[string][]Clause{}, Consts: map[string]string{}, Macros: map[string]*Macro{}}
	var paths []string
	for p := range pkgDirs {
		paths = append(paths, p)
	}
	sort.Strings(paths)
	for _, pkgPath := range paths {
		dir := pkgDirs[pkgPath]
		files, _ := filepath.Glob(filepath.Join(dir, "verif_contracts*.go"))
		sort.Strings(files)
		for _, f := range files {
			if err := c.parseFile(pkgPath, f); err != nil {
				return nil, err
			}
			c.Files = append(c.Files, f)
		}
	}
	return c, nil
}

type rawDirective struct {
	text string
	src  string
}

func (c *Contracts) parseFile(pkgPath, file string) error {
	data, err := os.ReadFile(file)
	if err != nil {
		return err
	}
	var dirs []rawDirective
	for i, line := range strings.Split(string(data), "\n") {
		t := strings.TrimSpace(line)
		if !strings.HasPrefix(t, "//@") {
			continue
		}
		body := strings.TrimSpace(t[3:])
		if body == "" {
			continue
		}
		if k := strings.Index(body, " //"); k >= 0 { // trailing comment
			body = strings.TrimSpace(body[:k])
		}
		first := body
		if k := strings.IndexAny(body, " \t"); k >= 0 {
			first = body[:k]
		}
		if clauseKeywords[first] || topKeywords[first] {
			dirs = append(dirs, rawDirective{body, fmt.Sprintf("%s:%d", filepath.Base(filepath.Dir(file))+"/"+filepath.Base(file), i+1)})
		} else {
			if len(dirs) == 0 {
				return fmt.Errorf("%s:%d: continuation without directive", file, i+1)
			}
			dirs[len(dirs)-1].text += " " + body
		}
	}
	var curF *FuncContract
	var curM *Monitor
	var curL *Lemma
	var curTI string
	for _, d := range dirs {
		first, rest := splitWord(d.text)
		switch first {
		case "func", "extfunc":
			curM, curL, curTI = nil, nil, ""
			name := rest
			cs := ""
			if k := strings.Index(rest, " case "); k >= 0 {
				name = strings.TrimSpace(rest[:k])
				cs = strings.TrimSpace(rest[k+6:])
			}
			fc := &FuncContract{Pkg: pkgPath, Name: name, Case: cs, Src: d.src, Trusted: first == "extfunc"}
			if first == "extfunc" {
				fc.Full = name
			} else {
				fc.Full = pkgPath + "." + name
			}
			for _, prev := range c.Funcs[fc.Full] {
				if prev.Case == fc.Case {
					return fmt.Errorf("%s: duplicate contract for %s (first at %s)", d.src, fc.Full, prev.Src)
				}
			}
			c.Funcs[fc.Full] = append(c.Funcs[fc.Full], fc)
			curF = fc
		case "pure":
			curF, curM, curL, curTI = nil, nil, nil, ""
			pf, err := parsePure(pkgPath, rest, d.src)
			if err != nil {
				return fmt.Errorf("%s: %v", d.src, err)
			}
			c.Pure[pkgPath+"."+pf.Name] = pf
			c.Pure[pf.Name] = pf
			c.PureList = append(c.PureList, pf)
		case "macro":
			// macro name(a, b) = expr
			curF, curM, curL, curTI = nil, nil, nil, ""
			k := strings.Index(rest, "=")
			po := strings.Index(rest, "(")
			pc := strings.Index(rest, ")")
			if k < 0 || po < 0 || pc < po || pc > k {
				return fmt.Errorf("%s: bad macro", d.src)
			}
			mc := &Macro{Pkg: pkgPath, Name: strings.TrimSpace(rest[:po]), Params: splitList(rest[po+1 : pc]), Body: strings.TrimSpace(rest[k+1:]), Src: d.src}
			c.Macros[mc.Name] = mc
		case "const":
			// const name = expr
			k := strings.Index(rest, "=")
			if k < 0 {
				return fmt.Errorf("%s: bad const", d.src)
			}
			c.Consts[strings.TrimSpace(rest[:k])] = strings.TrimSpace(rest[k+1:])
		case "ghost":
			curF, curM, curL, curTI = nil, nil, nil, ""
			// ghost field (*T).name type
			w, r2 := splitWord(rest)
			if w != "field" {
				return fmt.Errorf("%s: expected 'ghost field'", d.src)
			}
			tn, fn, ok := splitRecvField(r2)
			if !ok {
				return fmt.Errorf("%s: bad ghost field %q", d.src, r2)
			}
			nm, ty := splitWord(fn)
			gp := pkgPath
			if k := strings.LastIndex(tn, "."); k >= 0 {
				gp, tn = tn[:k], tn[k+1:]
			}
			c.Ghost[gp+"."+tn+"."+nm] = &GhostField{Pkg: gp, Type: tn, Name: nm, GoType: ty}
		case "monitor":
			curF, curL, curTI = nil, nil, ""
			tn, fn, ok := splitRecvField(rest)
			if !ok {
				return fmt.Errorf("%s: bad monitor %q", d.src, rest)
			}
			mname := strings.TrimSpace(fn)
			ptr := false
			if strings.HasSuffix(mname, " ptr") {
				ptr = true
				mname = strings.TrimSpace(strings.TrimSuffix(mname, " ptr"))
			}
			curM = &Monitor{Pkg: pkgPath, Type: tn, Mutex: mname, Src: d.src, PtrMtx: ptr}
			c.Monitors = append(c.Monitors, curM)
		case "typeinv":
			curF, curM, curL = nil, nil, nil
			curTI = pkgPath + "." + strings.TrimSpace(strings.Trim(rest, "()*"))
		case "lemma":
			curF, curM, curTI = nil, nil, ""
			lb := ""
			if m := labelRe.FindStringSubmatch(rest); m != nil {
				lb = m[1]
				rest = rest[len(m[0]):]
			}
			curL = &Lemma{Pkg: pkgPath, Label: lb, Expr: rest, Src: d.src}
			c.Lemmas = append(c.Lemmas, curL)
		case "axiom":
			c.Axioms = append(c.Axioms, Clause{Kind: "axiom", Expr: rest, Src: d.src})
		case "frozen", "confined":
			for _, x := range splitTop(rest, ',') {
				x = strings.TrimSpace(x)
				if x == "" {
					continue
				}
				key := x
				if !strings.Contains(x, "/") && !strings.HasPrefix(x, "elem:") && !strings.HasPrefix(x, "cell:") {
					key = pkgPath + "." + x
				}
				if first == "frozen" {
					c.Frozen[key] = true
				} else {
					c.Confined[key] = true
				}
			}
		default:
			cl := Clause{Kind: first, Src: d.src}
			if m := labelRe.FindStringSubmatch(rest); m != nil {
				cl.Label = m[1]
				rest = rest[len(m[0]):]
			}
			switch first {
			case "let", "ext", "witness", "oldlet":
				k := strings.Index(rest, ":=")
				if k < 0 {
					return fmt.Errorf("%s: expected name := expr", d.src)
				}
				cl.Name = strings.TrimSpace(rest[:k])
				cl.Expr = strings.TrimSpace(rest[k+2:])
			case "loop":
				w, r2 := splitWord(rest)
				n, err := strconv.Atoi(w)
				if err != nil {
					return fmt.Errorf("%s: loop ordinal: %v", d.src, err)
				}
				cl.Loop = n
				w2, r3 := splitWord(r2)
				if m := labelRe.FindStringSubmatch(r3); m != nil {
					cl.Label = m[1]
					r3 = r3[len(m[0]):]
				}
				switch w2 {
				case "invariant":
					cl.Kind = "loopinv"
				case "decreases":
					cl.Kind = "loopdec"
				case "modifies":
					cl.Kind = "loopmod"
				default:
					return fmt.Errorf("%s: loop clause %q", d.src, w2)
				}
				cl.Expr = r3
			case "onwrite", "oncall", "rely", "beforecall":
				k := strings.Index(rest, ":")
				if k < 0 {
					return fmt.Errorf("%s: expected field: assignments", d.src)
				}
				cl.Name = strings.TrimSpace(rest[:k])
				cl.Expr = strings.TrimSpace(rest[k+1:])
			default:
				cl.Expr = rest
			}
			switch {
			case curF != nil:
				if first == "inline" {
					curF.Inline = true
				} else {
					curF.Clauses = append(curF.Clauses, cl)
				}
			case curM != nil:
				switch first {
				case "guards":
					curM.Guards = append(curM.Guards, splitList(rest)...)
				case "owns":
					curM.Owns = append(curM.Owns, splitList(rest)...)
				case "invariant", "premise":
					curM.Invs = append(curM.Invs, cl)
				default:
					return fmt.Errorf("%s: clause %q not allowed in monitor", d.src, first)
				}
			case curL != nil:
				switch first {
				case "hint":
					curL.Hints = append(curL.Hints, rest)
				case "by":
					curL.By = rest
				default:
					return fmt.Errorf("%s: clause %q not allowed in lemma", d.src, first)
				}
			case curTI != "":
				if first != "invariant" {
					return fmt.Errorf("%s: only invariant allowed in typeinv", d.src)
				}
				c.TypeInvs[curTI] = append(c.TypeInvs[curTI], cl)
			default:
				return fmt.Errorf("%s: clause %q outside of a block", d.src, first)
			}
		}
	}
	return nil
}

func splitList(s string) []string {
	var out []string
	for _, x := range strings.Split(s, ",") {
		x = strings.TrimSpace(x)
		if x != "" {
			out = append(out, x)
		}
	}
	return out
}

func splitWord(s string) (string, string) {
	s = strings.TrimSpace(s)
	k := strings.IndexAny(s, " \t")
	if k < 0 {
		return s, ""
	}
	return s[:k], strings.TrimSpace(s[k:])
}

// splitRecvField parses "(*T).name rest" or "(*pkg/path.T).name rest" -> T, "name rest"
func splitRecvField(s string) (string, string, bool) {
	s = strings.TrimSpace(s)
	if !strings.HasPrefix(s, "(") {
		return "", "", false
	}
	k := strings.Index(s, ").")
	if k < 0 {
		return "", "", false
	}
	t := strings.TrimPrefix(s[1:k], "*")
	if b := strings.Index(t, "["); b >= 0 {
		t = t[:b]
	}
	return t, s[k+2:], true
}

var pureRe = regexp.MustCompile(`^(rec\s+|unfold\s+)?func\s+([A-Za-z_][A-Za-z0-9_]*)\s*\(([^)]*)\)\s*([A-Za-z0-9_\[\]]+)\s*=\s*(.*)$`)


func parsePure(pkg, s, src string) (*PureFunc, error) {
	m := pureRe.FindStringSubmatch(strings.TrimSpace(s))
	if m == nil {
		return nil, fmt.Errorf("bad pure func: %q", s)
	}
	pf := &PureFunc{Pkg: pkg, Name: m[2], Ret: m[4], Body: m[5], Rec: strings.HasPrefix(m[1], "rec"), Unfold: strings.HasPrefix(m[1], "unfold"), Src: src}
	// params: "a, b int, c bool"
	var pending []string
	for _, p := range strings.Split(m[3], ",") {
		p = strings.TrimSpace(p)
		if p == "" {
			continue
		}
		n, t := splitWord(p)
		if t == "" {
			pending = append(pending, n)
			continue
		}
		for _, q := range pending {
			pf.Params = append(pf.Params, [2]string{q, t})
		}
		pending = nil
		pf.Params = append(pf.Params, [2]string{n, t})
	}
	if len(pending) > 0 {
		return nil, fmt.Errorf("pure func %s: parameter without type", pf.Name)
	}
	return pf, nil
}

// propsOf extracts property ids (Cxx) from clause labels.
func propsOfLabel(label string) []string {
	var out []string
	for _, part := range strings.Split(label, "+") {
		if len(part) >= 3 && part[0] == 'C' && part[1] >= '0' && part[1] <= '9' {
			k := 1
			for k < len(part) && part[k] >= '0' && part[k] <= '9' {
				k++
			}
			out = append(out, part[:k])
		}
	}
	return out
}

func (c *FuncContract) hasClause(kind string) bool {
	for _, cl := range c.Clauses {
		if cl.Kind == kind {
			return true
		}
	}
	return false
}
