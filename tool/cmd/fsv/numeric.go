package main

import (
	"fmt"
	"go/token"
	"math"
	"math/big"
	"strings"

	"golang.org/x/tools/go/ssa"
)

// ---- float64: real rounding model ----
// rnd64(x): the float64 nearest to the real x. Facts instantiated at every application:
//   |rnd(x) - x| <= |x| * 2^-53 ; integers of magnitude <= 2^53 are exact ; rnd is monotone (pairwise, on demand).

func (t *Task) rnd64(x string, st *State) string {
	t.assumed["float64 arithmetic by the standard rounding model over reals (|rnd x - x| <= 2^-53 |x|, exact on integers up to 2^53, monotone); subnormals/overflow not modelled"] = true
	f := t.declareFun("$rnd64", []string{"Real"}, "Real")
	r := t.fresh("r64", "Real")
	t.assume(st.pc, sEq(r, sApp(f, x)))
	eps := "(/ 1.0 9007199254740992.0)"
	absx := "(ite (>= " + x + " 0.0) " + x + " (- " + x + "))"
	t.assume(st.pc, sAnd(
		"(<= (- "+r+" "+x+") (* "+absx+" "+eps+"))",
		"(<= (- "+x+" "+r+") (* "+absx+" "+eps+"))",
		sImp(sAnd("(is_int "+x+")", "(<= "+absx+" 9007199254740992.0)"), sEq(r, x)),
		// sign and zero preservation (consequences of monotonicity with rnd(0)=0)
		sImp("(>= "+x+" 0.0)", "(>= "+r+" 0.0)"),
		sImp("(<= "+x+" 0.0)", "(<= "+r+" 0.0)"),
	))
	// monotonicity against earlier applications in this task
	for _, p := range t.rndApps {
		t.assume(st.pc, sAnd(sImp("(<= "+p[0]+" "+x+")", "(<= "+p[1]+" "+r+")"), sImp("(<= "+x+" "+p[0]+")", "(<= "+r+" "+p[1]+")")))
	}
	if len(t.rndApps) < 12 {
		t.rndApps = append(t.rndApps, [2]string{x, r})
	}
	return r
}

// truncReal: Go float->int conversion truncates toward zero.
func (t *Task) truncReal(x string) string {
	return "(ite (>= " + x + " 0.0) (to_int " + x + ") (- (to_int (- " + x + "))))"
}

func f32Lit(f float32) string {
	bits := math.Float32bits(f)
	return fmt.Sprintf("((_ to_fp 8 24) #x%08x)", bits)
}

// ---- 64-bit vector integer mode ----

func bvLit(dec string) string {
	n := new(big.Int)
	n.SetString(dec, 10)
	if n.Sign() < 0 {
		n.Add(n, new(big.Int).Lsh(big.NewInt(1), 64))
	}
	return fmt.Sprintf("(_ bv%s 64)", n.String())
}

func (t *Task) bvParam(v Val) Val {
	return v
}

func (a *Activation) binopBV(in *ssa.BinOp, x, y Val, st *State) Val {
	T := in.Type()
	us := isUnsigned(in.X.Type())
	switch in.Op {
	case token.ADD:
		if !us {
			a.obligeSafety(st, "ovf", "add", sNot("(bvsaddo "+x.S+" "+y.S+")"), in.Pos())
		}
		return Val{K: KInt, S: "(bvadd " + x.S + " " + y.S + ")", T: T}
	case token.SUB:
		if !us {
			a.obligeSafety(st, "ovf", "sub", sNot("(bvssubo "+x.S+" "+y.S+")"), in.Pos())
		}
		return Val{K: KInt, S: "(bvsub " + x.S + " " + y.S + ")", T: T}
	case token.MUL:
		if !us {
			a.obligeSafety(st, "ovf", "mul", sNot("(bvsmulo "+x.S+" "+y.S+")"), in.Pos())
		}
		return Val{K: KInt, S: "(bvmul " + x.S + " " + y.S + ")", T: T}
	case token.QUO:
		a.obligeSafety(st, "div0", "division", sNot(sEq(y.S, bvLit("0"))), in.Pos())
		if us {
			return Val{K: KInt, S: "(bvudiv " + x.S + " " + y.S + ")", T: T}
		}
		return Val{K: KInt, S: "(bvsdiv " + x.S + " " + y.S + ")", T: T}
	case token.REM:
		a.obligeSafety(st, "div0", "remainder", sNot(sEq(y.S, bvLit("0"))), in.Pos())
		if us {
			return Val{K: KInt, S: "(bvurem " + x.S + " " + y.S + ")", T: T}
		}
		return Val{K: KInt, S: "(bvsrem " + x.S + " " + y.S + ")", T: T}
	}
	cmp := map[token.Token][2]string{token.LSS: {"bvslt", "bvult"}, token.LEQ: {"bvsle", "bvule"}, token.GTR: {"bvsgt", "bvugt"}, token.GEQ: {"bvsge", "bvuge"}}
	if ops, ok := cmp[in.Op]; ok {
		op := ops[0]
		if us {
			op = ops[1]
		}
		return Val{K: KBool, S: "(" + op + " " + x.S + " " + y.S + ")", T: T}
	}
	a.t.errorf("%s: unsupported bit-vector op %s", a.fn, in.Op)
	return a.t.freshValue(st.pc, "bvop", T)
}

var _ = strings.TrimSpace
