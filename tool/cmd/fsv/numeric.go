package main

import (
	"fmt"
	"go/token"
	"math"
	"math/big"
	"strings"

	"golang.org/x/tools/go/ssa"
)

// ---- float64: real rounding model ----
// rnd64(x): the float64 nearest to the real x. Facts instantiated at every application:
//   |rnd(x) - x| <= |x| * 2^-53 ; integers of magnitude <= 2^53 are exact ; rnd is monotone (pairwise, on demand).

func (t *Task) rnd64(x string, st *State) string {
	t.assumed["float64 arithmetic by the standard rounding model over reals (|rnd x - x| <= 2^-53 |x|, exact on integers up to 2^53, monotone); subnormals/overflow not modelled"] = true
	if t.realInt == nil {
		t.realInt = map[string]bool{}
	}
	f := t.declareFun("$rnd64", []string{"Real"}, "Real")
	r := t.fresh("r64", "Real")
	t.assume(st.pc, sEq(r, sApp(f, x)))
	eps := "(/ 1.0 9007199254740992.0)"
	absx := "(ite (>= " + x + " 0.0) " + x + " (- " + x + "))"
	t.assume(st.pc, sAnd(
		"(<= (- "+r+" "+x+") (* "+absx+" "+eps+"))",
		"(<= (- "+x+" "+r+") (* "+absx+" "+eps+"))",
		sImp("(>= "+x+" 0.0)", "(>= "+r+" 0.0)"),
		sImp("(<= "+x+" 0.0)", "(<= "+r+" 0.0)"),
	))
	if len(t.rndApps) == 0 {
		for _, a := range []string{"1.0", "2.0"} {
			t.rndApps = append(t.rndApps, [2]string{a, a}, [2]string{"(- " + a + ")", "(- " + a + ")"})
		}
	}
	// monotonicity against exactly representable anchors and earlier roundings (rounding is monotone and odd)
	for _, p := range t.rndApps {
		t.assume(st.pc, sAnd(sImp("(<= "+p[0]+" "+x+")", "(<= "+p[1]+" "+r+")"), sImp("(<= "+x+" "+p[0]+")", "(<= "+r+" "+p[1]+")")))
	}
	if len(t.rndApps) < 20 {
		t.rndApps = append(t.rndApps, [2]string{x, r}, [2]string{"(- " + x + ")", "(- " + r + ")"})
	}
	return r
}

// exactInt: an integer-valued real of magnitude <= 2^53 is exactly representable: no rounding happens.
func (a *Activation) exactInt(term string, st *State, pos token.Pos) string {
	t := a.t
	if t.realInt == nil {
		t.realInt = map[string]bool{}
	}
	absx := "(ite (>= " + term + " 0.0) " + term + " (- " + term + "))"
	a.obligeSafety(st, "f64exact", "integer value is exactly representable in float64", "(<= "+absx+" 9007199254740992.0)", pos)
	t.realInt[term] = true
	if len(t.rndApps) == 0 {
		for _, c := range []string{"1.0", "2.0"} {
			t.rndApps = append(t.rndApps, [2]string{c, c}, [2]string{"(- " + c + ")", "(- " + c + ")"})
		}
	}
	if len(t.rndApps) < 20 {
		t.rndApps = append(t.rndApps, [2]string{term, term}, [2]string{"(- " + term + ")", "(- " + term + ")"})
	}
	return term
}

func (t *Task) isIntReal(x string) bool {
	if t.realInt != nil && t.realInt[x] {
		return true
	}
	if isRealLit(x) && !strings.Contains(x, "/") {
		// literal like 2.0 or (- 3.0)
		y := strings.TrimSuffix(strings.TrimPrefix(strings.TrimSpace(x), "(- "), ")")
		return strings.HasSuffix(y, ".0")
	}
	return false
}

// truncReal: Go float->int conversion truncates toward zero.
func (t *Task) truncReal(x string) string {
	return "(ite (>= " + x + " 0.0) (to_int " + x + ") (- (to_int (- " + x + "))))"
}

func f32Lit(f float32) string {
	bits := math.Float32bits(f)
	return fmt.Sprintf("((_ to_fp 8 24) #x%08x)", bits)
}

// ---- 64-bit vector integer mode ----

func bvLit(dec string) string {
	n := new(big.Int)
	n.SetString(dec, 10)
	if n.Sign() < 0 {
		n.Add(n, new(big.Int).Lsh(big.NewInt(1), 64))
	}
	return fmt.Sprintf("(_ bv%s 64)", n.String())
}

func (t *Task) bvParam(v Val) Val {
	return v
}

func (a *Activation) binopBV(in *ssa.BinOp, x, y Val, st *State) Val {
	T := in.Type()
	us := isUnsigned(in.X.Type())
	switch in.Op {
	case token.ADD:
		if !us {
			a.obligeSafety(st, "ovf", "add", sNot("(bvsaddo "+x.S+" "+y.S+")"), in.Pos())
		}
		return Val{K: KInt, S: "(bvadd " + x.S + " " + y.S + ")", T: T}
	case token.SUB:
		if !us {
			a.obligeSafety(st, "ovf", "sub", sNot("(bvssubo "+x.S+" "+y.S+")"), in.Pos())
		}
		return Val{K: KInt, S: "(bvsub " + x.S + " " + y.S + ")", T: T}
	case token.MUL:
		if !us {
			a.obligeSafety(st, "ovf", "mul", sNot("(bvsmulo "+x.S+" "+y.S+")"), in.Pos())
		}
		return Val{K: KInt, S: "(bvmul " + x.S + " " + y.S + ")", T: T}
	case token.QUO:
		a.obligeSafety(st, "div0", "division", sNot(sEq(y.S, bvLit("0"))), in.Pos())
		if us {
			return Val{K: KInt, S: "(bvudiv " + x.S + " " + y.S + ")", T: T}
		}
		return Val{K: KInt, S: "(bvsdiv " + x.S + " " + y.S + ")", T: T}
	case token.REM:
		a.obligeSafety(st, "div0", "remainder", sNot(sEq(y.S, bvLit("0"))), in.Pos())
		if us {
			return Val{K: KInt, S: "(bvurem " + x.S + " " + y.S + ")", T: T}
		}
		return Val{K: KInt, S: "(bvsrem " + x.S + " " + y.S + ")", T: T}
	}
	cmp := map[token.Token][2]string{token.LSS: {"bvslt", "bvult"}, token.LEQ: {"bvsle", "bvule"}, token.GTR: {"bvsgt", "bvugt"}, token.GEQ: {"bvsge", "bvuge"}}
	if ops, ok := cmp[in.Op]; ok {
		op := ops[0]
		if us {
			op = ops[1]
		}
		return Val{K: KBool, S: "(" + op + " " + x.S + " " + y.S + ")", T: T}
	}
	a.t.errorf("%s: unsupported bit-vector op %s", a.fn, in.Op)
	return a.t.freshValue(st.pc, "bvop", T)
}

var _ = strings.TrimSpace

func isRealLit(x string) bool {
	x = strings.TrimSpace(x)
	if strings.HasPrefix(x, "(- ") && strings.HasSuffix(x, ")") {
		return isRealLit(x[3 : len(x)-1])
	}
	if strings.HasPrefix(x, "(/ ") && strings.HasSuffix(x, ")") {
		f := strings.Fields(x[3 : len(x)-1])
		return len(f) == 2 && isRealLit(f[0]) && isRealLit(f[1])
	}
	if x == "" {
		return false
	}
	for _, c := range x {
		if !(c >= '0' && c <= '9' || c == '.') {
			return false
		}
	}
	return true
}

// realMul: product of two reals. With a literal factor it is exact (linear); the product of two symbolic values
// is abstracted by a fresh real constrained by sign, zero, unit and contraction facts (a sound over-approximation
// that keeps the queries linear; the solvers do not cope with the nonlinear terms next to to_int/is_int).
func (t *Task) realMul(a, b string, st *State) string {
	if isRealLit(a) || isRealLit(b) || !t.absMul {
		return "(* " + a + " " + b + ")"
	}
	t.assumed["products of two symbolic float64 values are over-approximated (sign, zero, unit, |a|<=1 => |ab|<=|b|)"] = true
	p := t.fresh("prod", "Real")
	abs := func(x string) string { return "(ite (>= " + x + " 0.0) " + x + " (- " + x + "))" }
	t.assume(st.pc, sAnd(
		sImp(sOr(sEq(a, "0.0"), sEq(b, "0.0")), sEq(p, "0.0")),
		sImp(sOr(sAnd("(>= "+a+" 0.0)", "(>= "+b+" 0.0)"), sAnd("(<= "+a+" 0.0)", "(<= "+b+" 0.0)")), "(>= "+p+" 0.0)"),
		sImp(sOr(sAnd("(>= "+a+" 0.0)", "(<= "+b+" 0.0)"), sAnd("(<= "+a+" 0.0)", "(>= "+b+" 0.0)")), "(<= "+p+" 0.0)"),
		sImp("(<= "+abs(a)+" 1.0)", "(<= "+abs(p)+" "+abs(b)+")"),
		sImp("(<= "+abs(b)+" 1.0)", "(<= "+abs(p)+" "+abs(a)+")"),
		sImp("(>= "+abs(a)+" 1.0)", "(>= "+abs(p)+" "+abs(b)+")"),
		sImp("(>= "+abs(b)+" 1.0)", "(>= "+abs(p)+" "+abs(a)+")"),
		sImp(sEq(a, "1.0"), sEq(p, b)),
		sImp(sEq(b, "1.0"), sEq(p, a)),
	))
	return p
}

func (t *Task) realDiv(a, b string, st *State) string {
	if isRealLit(b) || !t.absMul {
		return "(/ " + a + " " + b + ")"
	}
	t.assumed["quotients by a symbolic float64 value are over-approximated (sign, zero, 0<=a<=b => 0<=a/b<=1)"] = true
	q := t.fresh("quot", "Real")
	t.assume(st.pc, sAnd(
		sImp(sEq(a, "0.0"), sEq(q, "0.0")),
		sImp(sAnd("(>= "+a+" 0.0)", "(> "+b+" 0.0)"), "(>= "+q+" 0.0)"),
		sImp(sAnd("(>= "+a+" 0.0)", "(<= "+a+" "+b+")", "(> "+b+" 0.0)"), "(<= "+q+" 1.0)"),
		sImp(sAnd(sEq(a, b), sNot(sEq(b, "0.0"))), sEq(q, "1.0")),
	))
	return q
}
