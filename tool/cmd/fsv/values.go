package main

import (
	"fmt"
	"go/types"
	"sort"
	"strings"
)

type Kind int

const (
	KInt Kind = iota
	KBool
	KF32
	KF64 // real rounding model
	KRef
	KIface
	KStr
	KFunc
	KOpaque // values of type-parameter type
	KStruct
	KSlice
	KTuple
	KMap // ghost maps: SMT arrays
	KUnit
)

func (k Kind) String() string {
	return [...]string{"int", "bool", "f32", "f64", "ref", "iface", "str", "func", "opaque", "struct", "slice", "tuple", "map", "unit"}[k]
}

// Loc describes an interior pointer: the leaves of the pointee live in arrays
// named Prefix+leafpath, indexed by Ref (and Idx when it points into a slice).
type Loc struct {
	Prefix string
	Idx    string // "" when not an element location
}

type Closure struct {
	Fn       interface{} // *ssa.Function
	Bindings []Val
}

type Val struct {
	K      Kind
	T      types.Type // Go type where known
	S      string     // SMT term for scalar kinds; for KRef the Ref term
	Fields []Val      // struct fields / tuple components / slice: ptr,len
	Loc    *Loc       // interior pointer info for KRef
	Clo    *Closure   // statically known closure for KFunc
	Dyn    types.Type // statically known dynamic type for KIface
	Sort   string     // for KMap: SMT sort
	Elem   *Val       // for KMap: template of element (kind/type)
	Owner  string     // for a pointer-valued mutex: the object whose monitor it is
	OwnerT string     // monitor type key of Owner
	Unset  bool       // ghost local that only hooks assign and no hook has assigned yet (see unsetGhosts)
}

func (v Val) isScalar() bool {
	switch v.K {
	case KStruct, KSlice, KTuple:
		return false
	}
	return true
}

func boolVal(s string) Val { return Val{K: KBool, S: s, T: types.Typ[types.Bool]} }
func intVal(s string) Val  { return Val{K: KInt, S: s, T: types.Typ[types.Int]} }

// gBV: the task being generated uses 64-bit vectors for Go integers (VC generation is sequential).
var gBV bool

// sortOfKind gives the SMT sort of a scalar kind.
func sortOfKind(k Kind) string {
	switch k {
	case KInt:
		if gBV {
			return "(_ BitVec 64)"
		}
		return "Int"
	case KBool:
		return "Bool"
	case KF32:
		if !gBV {
			return "Real" // outside 'mode bv64' a float32 is carried by its exact real value (no float32 arithmetic)
		}
		return "(_ FloatingPoint 8 24)"
	case KF64:
		return "Real"
	default:
		return "Int"
	}
}

func (v Val) sort() string {
	if v.K == KMap {
		return v.Sort
	}
	return sortOfKind(v.K)
}

// ---- symbolic state ----

type privRef struct {
	ref    string
	prefix string // array-name prefix owned by this allocation
}

type stateBase struct {
	loopHavoc bool // havoc at a loop head: private objects are not exempt
	// exactly one of the following shapes:
	epoch int // fresh epoch: arrays are base constants name@epoch
	// havoc: arrays are fresh unless preserved from 'from'
	havocFrom *State
	keep      func(name string) bool
	// merge of predecessor states
	merge []mergeEdge
}

type mergeEdge struct {
	pc string
	st *State
}

type State struct {
	pc      string
	heap    map[string]string
	base    *stateBase
	private []privRef
	dead    bool
	prefixHavoc []string // array prefixes havocked wholesale (arrays registered later must be fresh too)
}

func (s *State) clone() *State {
	n := &State{pc: s.pc, heap: make(map[string]string, len(s.heap)+4), base: s.base, dead: s.dead}
	for k, v := range s.heap {
		n.heap[k] = v
	}
	n.private = append([]privRef(nil), s.private...)
	return n
}

func (s *State) keys() []string {
	var ks []string
	for k := range s.heap {
		ks = append(ks, k)
	}
	sort.Strings(ks)
	return ks
}

func smtName(s string) string {
	// SMT-LIB quoted symbol
	if strings.ContainsAny(s, "|\\") {
		s = strings.NewReplacer("|", "!", "\\", "!").Replace(s)
	}
	return "|" + s + "|"
}

func fmtf(f string, a ...interface{}) string { return fmt.Sprintf(f, a...) }
