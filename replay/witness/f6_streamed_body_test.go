package failsafehttp

// Witness for finding F6 (property C18): "the response finally returned is the last attempt's, with a body that can be
// read to the end, whatever contexts the request and the executor carry". When both the request context and the
// execution context are non-background (here: a context value on the request, a Timeout policy on the executor) the
// adapter cancels the merged context as soon as the attempt function returns (defer cancel(nil)), i.e. before the
// caller has read the streamed response body.

import (
	"context"
	"io"
	"net/http"
	"net/http/httptest"
	"testing"
	"time"

	"github.com/failsafe-go/failsafe-go/timeout"
)

type fsvCtxKey struct{}

func TestFsvWitnessF6(t *testing.T) {
	const chunks, chunkSize = 20, 4096
	srv := httptest.NewServer(http.HandlerFunc(func(w http.ResponseWriter, r *http.Request) {
		buf := make([]byte, chunkSize)
		for i := 0; i < chunks; i++ {
			if _, err := w.Write(buf); err != nil {
				return
			}
			w.(http.Flusher).Flush()
			time.Sleep(5 * time.Millisecond)
		}
	}))
	defer srv.Close()

	rt := NewRoundTripper(nil, timeout.With[*http.Response](5*time.Second))
	ctx := context.WithValue(context.Background(), fsvCtxKey{}, "v")
	req, _ := http.NewRequestWithContext(ctx, http.MethodGet, srv.URL, nil)
	resp, err := (&http.Client{Transport: rt}).Do(req)
	if err != nil {
		t.Fatalf("request failed: %v", err)
	}
	defer resp.Body.Close()
	n, err := io.Copy(io.Discard, resp.Body)
	if err != nil || n != chunks*chunkSize {
		t.Fatalf("C18 violated: response body could not be read to the end: %d of %d bytes, err=%v", n, chunks*chunkSize, err)
	}
}
