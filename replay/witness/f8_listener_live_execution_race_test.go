package test

// Witness for finding F8 (property C14): three listeners receive the *live* execution object instead of a copy taken
// under the execution lock (which every other listener gets): rate limiter OnRateLimitExceeded, bulkhead OnFull and cache
// OnCacheMiss. LastResult() / LastError() read the guarded fields without the lock, so a listener that looks at them
// races with execution.Cancel called from an enclosing Timeout's timer goroutine. Run under -race.

import (
	"testing"
	"time"

	"github.com/failsafe-go/failsafe-go"
	"github.com/failsafe-go/failsafe-go/bulkhead"
	"github.com/failsafe-go/failsafe-go/cachepolicy"
	"github.com/failsafe-go/failsafe-go/ratelimiter"
	"github.com/failsafe-go/failsafe-go/timeout"
)

// what a listener that reports the last outcome does, for a little longer than the enclosing timeout
func f8Inspect(e failsafe.ExecutionEvent[any]) {
	deadline := time.Now().Add(30 * time.Millisecond)
	for time.Now().Before(deadline) {
		_ = e.LastError()
		_ = e.LastResult()
		time.Sleep(50 * time.Microsecond)
	}
}

type f8NoCache struct{}

func (f8NoCache) Get(string) (any, bool) { return nil, false }
func (f8NoCache) Set(string, any)        {}

func TestFsvWitnessF8RateLimiter(t *testing.T) {
	rl := ratelimiter.SmoothBuilder[any](1, time.Hour).OnRateLimitExceeded(f8Inspect).Build()
	rl.TryAcquirePermit() // the only permit of the hour
	to := timeout.With[any](5 * time.Millisecond)
	_, _ = failsafe.NewExecutor[any](to, rl).Get(func() (any, error) { return nil, nil })
	time.Sleep(40 * time.Millisecond)
}

func TestFsvWitnessF8Bulkhead(t *testing.T) {
	bh := bulkhead.Builder[any](1).OnFull(f8Inspect).Build()
	bh.TryAcquirePermit() // the only permit
	to := timeout.With[any](5 * time.Millisecond)
	_, _ = failsafe.NewExecutor[any](to, bh).Get(func() (any, error) { return nil, nil })
	time.Sleep(40 * time.Millisecond)
}

func TestFsvWitnessF8CacheMiss(t *testing.T) {
	cp := cachepolicy.Builder[any](f8NoCache{}).WithKey("k").OnCacheMiss(f8Inspect).Build()
	to := timeout.With[any](5 * time.Millisecond)
	_, _ = failsafe.NewExecutor[any](to, cp).Get(func() (any, error) { return nil, nil })
	time.Sleep(40 * time.Millisecond)
}
