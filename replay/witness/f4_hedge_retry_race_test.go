package test

// Witness for finding F4 (property C14): a hedge policy composed outside a retry policy runs its attempts on separate
// goroutines through the *same* retry executor closure. That executor keeps failedAttempts / retriesExceeded /
// lastDelay without any lock, so overlapping attempts race on them. Run under -race.

import (
	"errors"
	"testing"
	"time"

	"github.com/failsafe-go/failsafe-go"
	"github.com/failsafe-go/failsafe-go/hedgepolicy"
	"github.com/failsafe-go/failsafe-go/retrypolicy"
)

func TestFsvWitnessF4(t *testing.T) {
	boom := errors.New("boom")
	for i := 0; i < 100; i++ {
		rp := retrypolicy.Builder[any]().WithMaxRetries(3).Build()
		hp := hedgepolicy.BuilderWithDelay[any](50 * time.Microsecond).WithMaxHedges(2).Build()
		_, _ = failsafe.NewExecutor[any](hp, rp).Get(func() (any, error) {
			time.Sleep(200 * time.Microsecond)
			return nil, boom
		})
	}
}
