package test

// Witness for finding F4 (property C14): a hedge policy composed outside a retry policy runs its attempts on separate
// goroutines through the *same* retry executor closure. That executor keeps failedAttempts / retriesExceeded /
// lastDelay without any lock, so overlapping attempts race on them. Run under -race.
//
// The user function makes the overlap certain instead of likely: the first invocation of each execution waits until a
// hedge has started as well, then both fail, and both goroutines update the shared retry executor.

import (
	"errors"
	"sync/atomic"
	"testing"
	"time"

	"github.com/failsafe-go/failsafe-go"
	"github.com/failsafe-go/failsafe-go/hedgepolicy"
	"github.com/failsafe-go/failsafe-go/retrypolicy"
)

func TestFsvWitnessF4(t *testing.T) {
	boom := errors.New("boom")
	for i := 0; i < 20; i++ {
		var started atomic.Int32
		rp := retrypolicy.Builder[any]().WithMaxRetries(2).Build()
		hp := hedgepolicy.BuilderWithDelay[any](100 * time.Microsecond).WithMaxHedges(1).Build()
		_, _ = failsafe.NewExecutor[any](hp, rp).Get(func() (any, error) {
			if started.Add(1) == 1 {
				deadline := time.Now().Add(200 * time.Millisecond)
				for started.Load() < 2 && time.Now().Before(deadline) {
					time.Sleep(20 * time.Microsecond)
				}
			}
			return nil, boom
		})
	}
}
