package failsafe

// Witness for finding F2 (property C08 / C15): the async Cancel records ErrExecutionCanceled under the
// execution lock but cancels the context afterwards, outside it. A retry that initialises between the two steps
// wipes the recorded result and the caller sees context.Canceled. Replayed at method granularity: every step
// below is one real, individually atomic method of the real code, in an order two goroutines can produce.

import (
	"context"
	"errors"
	"testing"

	"github.com/failsafe-go/failsafe-go/common"
)

func TestFsvWitnessF2(t *testing.T) {
	// the objects exactly as the real executeAsync builds them; the user function blocks so that nothing else moves
	block := make(chan struct{})
	defer close(block)
	ex := &executor[any]{ctx: context.Background()}
	res := ex.executeAsync(func(Execution[any]) (any, error) { <-block; return nil, nil }, false).(*executionResult[any])
	exec := res.execution

	// goroutine A: ExecutionResult.Cancel(), first half (as in result.go)
	exec.Cancel(&common.PolicyResult[any]{Error: ErrExecutionCanceled, Done: true})
	// goroutine B: a retry loop prepares the next attempt
	if r := exec.InitializeRetry(); r != nil {
		// the cancellation was already visible: attribution must be intact
		if !errors.Is(r.Error, ErrExecutionCanceled) {
			t.Fatalf("C08/C15 violated: cancel result misattributed: %v", r.Error)
		}
		return
	}
	// goroutine A: second half
	if res.cancelFunc != nil {
		res.cancelFunc()
	}
	// goroutine B: observes the cancellation
	canceled, r := exec.IsCanceledWithResult()
	if !canceled {
		t.Fatalf("execution not cancelled")
	}
	if !errors.Is(r.Error, ErrExecutionCanceled) {
		t.Fatalf("C08/C15 violated: async Cancel reported as %v instead of ErrExecutionCanceled", r.Error)
	}
}
