package test

// Witness for finding F7 (property C14): the retry executor hands the *live* execution object to the user's
// DelayFunc, while every other user callback gets a copy taken under the execution lock. LastResult() / LastError()
// read the guarded fields without the lock, so a DelayFunc that looks at the last outcome races with a Timeout's
// timer goroutine (or ExecutionResult.Cancel) writing them in execution.Cancel. Run under -race.

import (
	"errors"
	"testing"
	"time"

	"github.com/failsafe-go/failsafe-go"
	"github.com/failsafe-go/failsafe-go/retrypolicy"
	"github.com/failsafe-go/failsafe-go/timeout"
)

func TestFsvWitnessF7(t *testing.T) {
	boom := errors.New("boom")
	for i := 0; i < 300; i++ {
		rp := retrypolicy.Builder[any]().
			WithMaxRetries(-1).
			WithDelayFunc(func(exec failsafe.ExecutionAttempt[any]) time.Duration {
				// what a back-off that depends on the last outcome does
				for j := 0; j < 50; j++ {
					_ = exec.LastError()
					_ = exec.LastResult()
				}
				return time.Microsecond
			}).Build()
		to := timeout.With[any](time.Duration(200+i*7) * time.Microsecond)
		_, _ = failsafe.NewExecutor[any](to, rp).Get(func() (any, error) {
			return nil, boom
		})
	}
}
