package util

// Witness for finding F5 (property C18): the merged context handed to every HTTP / gRPC attempt must still carry
// the caller's context values and deadline.

import (
	"context"
	"testing"
	"time"
)

type fsvKey struct{}

func TestFsvWitnessF5(t *testing.T) {
	ctx1, c1 := context.WithDeadline(context.WithValue(context.Background(), fsvKey{}, "v"), time.Now().Add(time.Hour))
	defer c1()
	ctx2, c2 := context.WithCancel(context.Background())
	defer c2()
	merged, cancel := MergeContexts(ctx1, ctx2)
	defer cancel(nil)
	if merged.Value(fsvKey{}) != "v" {
		t.Errorf("C18 violated: the merged context lost the caller's context value (got %v)", merged.Value(fsvKey{}))
	}
	if _, ok := merged.Deadline(); !ok {
		t.Errorf("C18 violated: the merged context lost the caller's deadline")
	}
	// and it is still done when either side is
	c2()
	select {
	case <-merged.Done():
	case <-time.After(2 * time.Second):
		t.Errorf("merged context not done after ctx2 was cancelled")
	}
}
