package util

// Bounded companion of the errorAs / ErrorTypesMatch contract (C12, NOT a proof): compares the real ErrorTypesMatch with
// the specification "the error's own type, or that of anything it wraps or joins, is assignable to the target type" on
// every error tree of depth <= 3 built from three leaf types (value receiver, pointer receiver, unrelated), single
// wraps (fmt.Errorf %w), joins (errors.Join of two) and a custom type implementing both Unwrap forms' single variant.
// It exists so that a re-structured errorAs, whose loop-keyed contract no longer applies (UNDECIDED), is still checked
// against concrete trees; it is never counted as proved.

import (
	"errors"
	"fmt"
	"reflect"
	"testing"
)

type fsvValErr struct{ n int }

func (fsvValErr) Error() string { return "val" }

type fsvPtrErr struct{ n int }

func (*fsvPtrErr) Error() string { return "ptr" }

type fsvOtherErr struct{}

func (fsvOtherErr) Error() string { return "other" }

type fsvWrap struct{ inner error }

func (w fsvWrap) Error() string { return "wrap" }
func (w fsvWrap) Unwrap() error { return w.inner }

// the specification, written from the property statement
func fsvSpecMatches(err error, target reflect.Type) bool {
	if err == nil {
		return false
	}
	if reflect.TypeOf(err).AssignableTo(target) {
		return true
	}
	switch x := err.(type) {
	case interface{ Unwrap() error }:
		return fsvSpecMatches(x.Unwrap(), target)
	case interface{ Unwrap() []error }:
		for _, e := range x.Unwrap() {
			if fsvSpecMatches(e, target) {
				return true
			}
		}
	}
	return false
}

func fsvTrees(depth int) []error {
	leaves := []error{fsvValErr{1}, &fsvPtrErr{2}, fsvOtherErr{}}
	if depth == 0 {
		return leaves
	}
	sub := fsvTrees(depth - 1)
	out := append([]error{}, leaves...)
	for _, s := range sub {
		out = append(out, fmt.Errorf("w: %w", s), fsvWrap{s})
	}
	// joins of two subtrees (a sample of pairs keeps the count bounded: every subtree paired with three fixed partners)
	partners := []error{fsvOtherErr{}, sub[0], sub[len(sub)-1]}
	for _, s := range sub {
		for _, p := range partners {
			out = append(out, errors.Join(p, s), errors.Join(s, p), fmt.Errorf("%w and %w", p, s))
		}
	}
	return out
}

func TestFsvBoundedC12ErrorTypesMatch(t *testing.T) {
	targets := []any{fsvValErr{}, &fsvPtrErr{}, fsvPtrErr{}, fsvOtherErr{}, fsvWrap{}}
	trees := fsvTrees(3)
	cases := 0
	for _, tr := range trees {
		for _, tg := range targets {
			tt := reflect.TypeOf(tg)
			if tt.Kind() == reflect.Ptr {
				tt = tt.Elem()
			}
			if tt.Kind() != reflect.Interface && !tt.Implements(errorType) {
				tt = reflect.PointerTo(tt)
			}
			want := fsvSpecMatches(tr, tt)
			got := ErrorTypesMatch(tr, tg)
			cases++
			if got != want {
				t.Fatalf("C12 violated: ErrorTypesMatch(%#v [%v], %T) = %v, specification says %v", tr, tr, tg, got, want)
			}
		}
	}
	t.Logf("bounded: %d (error tree, target) cases, depth <= 3", cases)
}
