package circuitbreaker

// Bounded stand-in (C03, NOT a proof): "a half-open breaker with a failure-rate threshold decides (closes or re-opens)
// within its trial capacity". The decision compares two independently rounded float64 rates
// (round(f/e*100) >= T, round(s/e*100) > 100-T); whether at least one of them holds for every f+s = e depends on the
// exact float64 results, which none of the installed solvers can decide. Bound: every capacity e <= 400, every split
// f+s = e, every threshold T in {fr-1, fr, fr+1} (the only thresholds that can fall between the two rates), run on
// the real breaker through its public recording API.

import (
	"math"
	"testing"
	"time"
)

func TestFsvBoundedC03RateDecision(t *testing.T) {
	const maxCapacity = 400
	cases := 0
	for e := uint(1); e <= maxCapacity; e++ {
		for f := uint(0); f <= e; f++ {
			fr := uint(math.Round(float64(f) / float64(e) * 100.0))
			for _, T := range []uint{fr - 1, fr, fr + 1} {
				if T < 1 || T > 100 {
					continue
				}
				cb := Builder[any]().WithFailureRateThreshold(T, e, time.Minute).Build().(*circuitBreaker[any])
				cb.HalfOpen()
				for i := uint(0); i < e; i++ {
					if cb.State() != HalfOpenState {
						t.Fatalf("capacity %d, threshold %d%%: decided after %d of %d trial results", e, T, i, e)
					}
					if i < f {
						cb.RecordFailure()
					} else {
						cb.RecordSuccess()
					}
				}
				cases++
				if cb.State() == HalfOpenState {
					t.Fatalf("C03 violated: capacity %d, %d failures, %d successes, threshold %d%%: still half-open after the trial capacity is used up (failure rate %d, success rate %d)", e, f, e-f, T, cb.FailureRate(), cb.SuccessRate())
				}
			}
		}
	}
	t.Logf("bounded: %d (capacity, split, threshold) cases up to capacity %d, all decided", cases, maxCapacity)
}
