package circuitbreaker

// Bounded companion (C03 / C04, NOT a proof) of the deductive contracts on openState.tryAcquirePermit / remainingDelay /
// (*circuitBreaker).open: "an open breaker admits nothing until exactly its delay has elapsed, then half-opens; the
// published remaining delay is max(delay - elapsed, 0)". Those contracts name the fields openState.startTime and
// openState.delay; a change of that representation (e.g. a precomputed end time, which overflows for huge delays) makes
// them unevaluable and the deductive check UNDECIDED. This test drives the real breaker through its public API with an
// injected clock, so it still decides then. Bound: the delays, clock readings and elapsed offsets listed below
// (boundary values around the delay, zero, and the largest legal durations).

import (
	"math"
	"testing"
	"time"
)

type fsvBoundedClock struct{ now int64 }

func (c *fsvBoundedClock) CurrentUnixNano() int64 { return c.now }

func TestFsvBoundedC03OpenDelay(t *testing.T) {
	delays := []int64{0, 1, 2, 1000, int64(time.Second), int64(time.Minute), 1 << 40, 1 << 53, 1 << 62, math.MaxInt64 - 1, math.MaxInt64}
	starts := []int64{0, 1, int64(time.Hour), 1759276800000000000 /* 2025-10-01 */, 1 << 61}
	cases := 0
	for _, d := range delays {
		for _, s0 := range starts {
			var offs []int64
			for _, o := range []int64{0, 1, d / 2, d - 1, d, d + 1, d + int64(time.Hour)} {
				if o >= 0 && o <= math.MaxInt64-s0 { // the clock itself must be representable
					offs = append(offs, o)
				}
			}
			for _, el := range offs {
				clock := &fsvBoundedClock{now: s0}
				b := Builder[any]().WithDelay(time.Duration(d))
				b.(*config[any]).clock = clock
				cb := b.Build()
				cb.Open()
				if cb.State() != OpenState {
					t.Fatalf("Open(): state %v", cb.State())
				}
				clock.now = s0 + el
				wantRemaining := max(d-el, 0)
				if got := int64(cb.RemainingDelay()); got != wantRemaining {
					t.Fatalf("C03 violated: delay %d, opened at %d, %d ns later: RemainingDelay() = %d, want %d", d, s0, el, got, wantRemaining)
				}
				admitted := cb.TryAcquirePermit()
				wantAdmitted := el >= d
				cases++
				if admitted != wantAdmitted {
					t.Fatalf("C03/C04 violated: delay %d, opened at clock %d, %d ns later: TryAcquirePermit() = %v (state now %v), want %v", d, s0, el, admitted, cb.State(), wantAdmitted)
				}
				if !admitted && cb.State() != OpenState {
					t.Fatalf("C03 violated: refused but state %v", cb.State())
				}
				if admitted && cb.State() != HalfOpenState {
					t.Fatalf("C03 violated: admitted after the delay but state %v, want half-open", cb.State())
				}
			}
		}
	}
	t.Logf("bounded: %d (delay, clock, elapsed) cases on the real breaker", cases)
}
