#!/bin/bash
# Must-fail corpus: applies every seeded change (or those of one property: selftest.sh C05) to a scratch copy of /repo
# and expects the check that is recorded as catching it (meta.json detected_by, the change's own property first) to exit 1.
# usage: selftest.sh [Cxx] [-j N]
cd /verif
filter=${1:-}
jobs=4
run_one() {
  d=$1
  id=$(basename $d)
  prop=${id%%.*}
  chk=$(python3 -c "
import json,sys
m=json.load(open('$d/meta.json')); db=m.get('detected_by') or []
print('$prop' if '$prop' in db or not db else db[0])")
  out=$(scripts/mutant.sh /verif/$d/patch.diff $chk --no-replay 2>&1)
  rc=$(echo "$out" | grep -o 'exit=[0-9]*' | tail -1)
  if echo "$out" | grep -q PATCH-FAILED; then echo "$id SKIPPED (patch does not apply to this tree)"; return; fi
  if [ "$rc" = "exit=1" ]; then echo "$id detected by $chk"; else echo "$id MISSED by $chk ($rc)"; fi
}
export -f run_one
ls -d seeded/${filter}*.? 2>/dev/null | xargs -P $jobs -I{} bash -c 'run_one {}'
