#!/bin/bash
# Must-fail corpus: applies seeded changes to scratch copies of /repo (removed afterwards) and expects the check to exit 1.
# usage: selftest.sh            every seeded change, with the check recorded as catching it (own property first)
#        selftest.sh Cxx        only the changes whose meta.json lists Cxx under detected_by, run against check Cxx
# Prints one line per change: "<id> detected by <check>" | "<id> UNDECIDED by <check> ..." | "<id> MISSED by <check> (exit=..)" | "<id> SKIPPED (...)".
cd /verif
want=${1:-}
jobs=${SELFTEST_JOBS:-4}
run_one() {
  d=$1; want=$2
  id=$(basename $d)
  prop=${id%%.*}
  chk=$(python3 -c "
import json
m=json.load(open('$d/meta.json')); db=m.get('detected_by') or []
w='$want'
if w: print(w if w in db else '')
else: print('$prop' if ('$prop' in db or not db) else db[0])")
  [ -z "$chk" ] && return
  out=$(scripts/mutant.sh /verif/$d/patch.diff $chk --no-replay 2>&1)
  rc=$(echo "$out" | grep -o 'exit=[0-9]*' | tail -1)
  if echo "$out" | grep -q PATCH-FAILED; then echo "$id SKIPPED (patch does not apply to this tree)"; return; fi
  if [ "$rc" = "exit=1" ]; then echo "$id detected by $chk"; elif [ "$rc" = "exit=2" ]; then echo "$id UNDECIDED by $chk (the changed code no longer matches the contract's names: no verdict, exit 2)"; else echo "$id MISSED by $chk ($rc)"; fi
}
export -f run_one
ls -d seeded/C??.? 2>/dev/null | xargs -P $jobs -I{} bash -c "run_one {} '$want'"
