#!/bin/bash
# Must-pass corpus: behaviour-preserving edits (selftest/benign/*.diff) applied to a scratch copy; the named checks must exit 0.
# usage: benign.sh   (each patch is run against the checks listed for it below)
cd /verif
declare -A checks=(
 [b01_rename_local_bursty]="C05 C14"
 [b02_reorder_independent_retry]="C02 C16"
 [b03_early_return_cache]="C11 C16"
 [b04_restructure_closed_threshold]="C03 C14"
 [b05_name_unused_param_bulkhead]="C06 C01"
 [b06_rename_local_2]="C05"
 [b07_fallback_named_condition]="C10"
 [b08_swap_field_writes_execution]="C08 C17 C15"
)
for f in selftest/benign/*.diff; do
  n=$(basename $f .diff)
  for c in ${checks[$n]}; do
    out=$(scripts/mutant.sh /verif/$f $c --no-replay 2>&1)
    rc=$(echo "$out" | grep -o 'exit=[0-9]*' | tail -1)
    if [ "$rc" = "exit=0" ]; then echo "$n $c pass"; else echo "$n $c ALARM ($rc)"; echo "$out" | grep -E "^(VIOLATION|UNDECIDED|undecided)" | cut -c1-260 | head -4; fi
  done
done
