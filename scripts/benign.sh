#!/bin/bash
# Must-pass corpus: behaviour-preserving edits (selftest/benign/*.diff) applied to a scratch copy; the named checks must exit 0.
# usage: benign.sh   (each patch is run against the checks listed for it below)
cd /verif
declare -A checks=(
 [b01_rename_local_bursty]="C05 C14"
 [b02_reorder_independent_retry]="C02 C16"
 [b03_early_return_cache]="C11 C16"
 [b04_restructure_closed_threshold]="C03 C14"
 [b05_name_unused_param_bulkhead]="C06 C01"
 [b06_rename_local_2]="C05"
 [b07_fallback_named_condition]="C10"
 [b08_swap_field_writes_execution]="C08 C17 C15"
 [b09_extract_helper_retry]="C02 C16"
 [b10_with_via_local_builder]="C06"
 [b11_run_via_local_executor]="C01 C15"
 [b12_computedelay_guard_first]="C13 C03 C04"
 [b13_failureresult_stepwise]="C01 C06"
 [b14_timed_reset_reordered]="C03"
 [b15_smooth_via_local]="C05"
 [x01_rename_contract_named_local_hedge]="C09"
 [x02_range_to_index_loop]="C12"
)
# x*: edits that rename a local an invariant names, or change a loop's shape: no verdict is possible (exit 2, UNDECIDED);
# what must never happen is exit 1 / a VIOLATION line.
for f in selftest/benign/*.diff; do
  n=$(basename $f .diff)
  for c in ${checks[$n]}; do
    out=$(scripts/mutant.sh /verif/$f $c --no-replay 2>&1)
    rc=$(echo "$out" | grep -o 'exit=[0-9]*' | tail -1)
    if [ "$rc" = "exit=0" ]; then echo "$n $c pass"; elif [ "$rc" = "exit=2" ] && ! echo "$out" | grep -q "^VIOLATION"; then echo "$n $c undecided (exit 2, no VIOLATION line)"; else echo "$n $c ALARM ($rc)"; echo "$out" | grep -E "^(VIOLATION|UNDECIDED|undecided)" | cut -c1-260 | head -4; fi
  done
done
