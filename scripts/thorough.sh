#!/bin/bash
# thorough tier of one property: the deductive check with the long solver budget, then the property's must-fail corpus
# (seeded changes recorded as caught by this check) on scratch copies outside /repo and /verif, removed afterwards.
# The corpus result is added to the evidence file; only the deductive check decides the exit status.
id=$1
cd /verif
bin/fsv check "$id" --tier thorough
rc=$?
res=$(scripts/selftest.sh "$id" 2>&1 | sort)
python3 - "$id" <<PY
import json,sys
id=sys.argv[1]
lines=[l for l in """$res""".splitlines() if l.strip()]
p='/verif/evidence/%s.json'%id
try:
    e=json.load(open(p))
except Exception:
    sys.exit(0)
e.setdefault('coverage',{})['must_fail_corpus']={
 'rule':'seeded property-breaking changes (/verif/seeded, confirmed to build, pass the pinned tests and fail their demonstration) whose meta.json lists this check; each is applied to a scratch copy of /repo and the check must exit 1',
 'run':len([l for l in lines if 'SKIPPED' not in l]),
 'detected':len([l for l in lines if ' detected by ' in l]),
 'undecided':[l for l in lines if ' UNDECIDED ' in l],
 'missed':[l for l in lines if ' MISSED ' in l],
 'skipped':[l for l in lines if 'SKIPPED' in l],
 'results':lines}
json.dump(e,open(p,'w'),indent=1)
PY
echo "$res" | grep -E "MISSED" >&2
exit $rc
