#!/bin/bash
# usage: import_seed.sh <dir-with-x.patch.diff...> Cxx v [v...]   -- copies sub-agent deliverables into /verif/seeded/Cxx.v and confirms them
src=$1; id=$2; shift 2
cd /verif
for v in "$@"; do
  [ -f $src/$v.patch.diff ] || { echo "$id.$v: no patch"; continue; }
  mkdir -p seeded/$id.$v
  cp $src/$v.patch.diff seeded/$id.$v/patch.diff
  cp $src/$v.demo_test.go seeded/$id.$v/demo_test.go.txt
  cp $src/$v.notes.md seeded/$id.$v/notes.md 2>/dev/null
  python3 scripts/confirm_seed.py seeded/$id.$v
done
