#!/usr/bin/env python3
"""Confirm one seeded property-breaking change and write its meta.json.

usage: confirm_seed.py /verif/seeded/<Cxx.v> [--no-check]

In a scratch copy of /repo's working tree (under /tmp, removed afterwards):
  1. apply patch.diff, go build ./...           -> must build
  2. run the pinned test suite                   -> every baseline test must still pass
  3. run the demonstration with the change       -> must fail
  4. revert the change, run the demonstration    -> must pass
  5. (unless --no-check) run `fsv check <Cxx>` on the changed copy -> exit 1 expected
Nothing is written to /repo.
"""
import json, os, re, shutil, subprocess, sys, tempfile

VERIF = os.environ.get("VERIF_DIR", "/verif")
REPO = os.environ.get("VERIF_REPO", "/repo")
ENV = dict(os.environ, GOFLAGS="-mod=mod", GOPROXY="off", GOSUMDB="off", GOTOOLCHAIN="local")


def sh(cmd, cwd, timeout=1800):
    p = subprocess.run(cmd, shell=True, cwd=cwd, env=ENV, stdout=subprocess.PIPE, stderr=subprocess.STDOUT, text=True, timeout=timeout)
    return p.returncode, p.stdout


def main():
    sd = os.path.abspath(sys.argv[1])
    nocheck = "--no-check" in sys.argv
    name = os.path.basename(sd)
    prop = name.split(".")[0]
    demo = open(os.path.join(sd, "demo_test.go.txt")).read()
    m = re.match(r"// copy to (\S+).*?; run: (.*)", demo.splitlines()[0])
    dest, runcmd = m.group(1), m.group(2).strip()
    scratch = tempfile.mkdtemp(prefix="seedchk_" + name + "_", dir="/tmp")
    meta = {"property": prop, "id": name, "demo_dest": dest, "demo_cmd": runcmd}
    try:
        wt = os.path.join(scratch, "repo")
        sh(f"rsync -a --exclude .git {REPO}/ {wt}/", "/")
        sh("git init -q . && git add -A && git -c user.email=a@b -c user.name=x commit -qm base", wt)
        rc, out = sh(f"git apply {sd}/patch.diff", wt)
        meta["applies"] = rc == 0
        if rc != 0:
            meta["error"] = out[-2000:]
            return finish(sd, meta)
        rc, out = sh("go build ./... && go vet -tags verif ./... >/dev/null 2>&1; go build -tags verif ./...", wt)
        meta["builds"] = rc == 0
        if rc != 0:
            meta["error"] = out[-2000:]
            return finish(sd, meta)
        # pinned suite
        rc, out = sh("go test -mod=mod -json -vet=off -count=1 -timeout 25m ./...", wt, timeout=2400)
        passed, failed = set(), set()
        for line in out.splitlines():
            try:
                ev = json.loads(line)
            except Exception:
                continue
            if ev.get("Test"):
                k = ev["Package"] + "::" + ev["Test"]
                if ev.get("Action") == "pass":
                    passed.add(k)
                elif ev.get("Action") == "fail":
                    failed.add(k)
        base = set(json.load(open("/root/.vp/BASELINE.json"))["stable_pass"])
        missing = sorted(base - passed)
        # timing-sensitive tests can fail when the machine is loaded: re-run each one alone (up to 3 times)
        retried = {}
        for k in list(missing):
            pkg, test = k.split("::")
            top = test.split("/")[0]
            for attempt in range(3):
                rc, out = sh(f"go test -mod=mod -json -vet=off -count=1 -timeout 10m -run '^{top}$' {pkg}", wt, timeout=900)
                ok = False
                for line in out.splitlines():
                    try:
                        ev = json.loads(line)
                    except Exception:
                        continue
                    if ev.get("Test") == test and ev.get("Action") == "pass":
                        ok = True
                if ok:
                    retried[k] = attempt + 1
                    missing.remove(k)
                    passed.add(k)
                    break
        meta["suite_retried_alone"] = retried
        meta["suite_with_change"] = {"baseline": len(base), "baseline_passing": len(base & passed), "baseline_not_passing": missing[:20]}
        # demo with change
        shutil.copy(os.path.join(sd, "demo_test.go.txt"), os.path.join(wt, dest))
        rc1, out1 = sh(runcmd + " -timeout 300s", wt, timeout=900)
        meta["demo_with_change"] = {"exit": rc1, "tail": out1[-1500:]}
        sh(f"git apply -R {sd}/patch.diff", wt)
        rc2, out2 = sh(runcmd + " -timeout 300s", wt, timeout=900)
        meta["demo_without_change"] = {"exit": rc2, "tail": out2[-600:]}
        meta["confirmed"] = bool(meta["builds"] and not missing and rc1 != 0 and rc2 == 0)
        if not nocheck:
            os.remove(os.path.join(wt, dest))
            sh(f"git apply {sd}/patch.diff", wt)
            checks = [prop] + [a for a in sys.argv[2:] if re.match(r"C\d\d$", a)]
            meta["checks"] = {}
            sv = os.path.join(scratch, "verif")
            os.makedirs(os.path.join(sv, "replay"))
            for f in ("known_findings.json", "prop_notes.json", "properties.jsonl", "bounded_checks.json"):
                if os.path.exists(os.path.join(VERIF, f)):
                    shutil.copy(os.path.join(VERIF, f), sv)
            for d in ("witness", "templates", "bounded"):
                if os.path.isdir(os.path.join(VERIF, "replay", d)):
                    shutil.copytree(os.path.join(VERIF, "replay", d), os.path.join(sv, "replay", d))
            for c in checks:
                env2 = dict(ENV, VERIF_REPO=wt, VERIF_DIR=sv)
                p = subprocess.run([os.path.join(VERIF, "bin/fsv"), "check", c], cwd=VERIF, env=env2, stdout=subprocess.PIPE, stderr=subprocess.STDOUT, text=True, timeout=3600)
                viol = [re.sub(r"replay=\S+", "replay=...", l) for l in p.stdout.splitlines() if l.startswith("VIOLATION") or l.startswith("UNDECIDED")]
                names = sorted(set(re.findall(r"obligation=(\S+)", p.stdout)))
                meta["checks"][c] = {"exit": p.returncode, "failed_obligations": names[:12], "lines": [l[:300] for l in viol[:6]]}
            meta["detected_by"] = sorted(c for c, r in meta["checks"].items() if r["exit"] == 1)
    finally:
        shutil.rmtree(scratch, ignore_errors=True)
    finish(sd, meta)


def finish(sd, meta):
    notes = os.path.join(sd, "notes.md")
    if os.path.exists(notes):
        txt = open(notes).read()
        m = re.search(r"What it needs to manifest[^:]*:\s*(.*?)(?:\n- |\Z)", txt, re.S)
        if m:
            meta["needs_to_manifest"] = " ".join(m.group(1).split())
    meta["what_i_ran"] = [
        "rsync copy of /repo working tree under /tmp; git apply patch.diff; go build ./... (and -tags verif)",
        "go test -mod=mod -json -vet=off -count=1 ./... compared with /root/.vp/BASELINE.json stable_pass",
        "demonstration copied to " + meta.get("demo_dest", "?") + ", run with and without the change: " + meta.get("demo_cmd", "?"),
        "bin/fsv check <property> with VERIF_REPO pointing at the changed copy",
    ]
    json.dump(meta, open(os.path.join(sd, "meta.json"), "w"), indent=1)
    print(meta.get("id"), "confirmed=", meta.get("confirmed"), "detected_by=", meta.get("detected_by"), meta.get("error", "")[:300])


main()
