#!/bin/bash
# usage: mutant.sh <patch-file> <Cxx> [more fsv args]   -- runs the check on a scratch copy of /repo with the patch applied
set -u
patch=$1; id=$2; shift 2
scratch=$(mktemp -d /tmp/fsv-mut-XXXXXX)
trap 'rm -rf "$scratch"' EXIT
mkdir -p "$scratch/repo" "$scratch/verif"
rsync -a --exclude .git /repo/ "$scratch/repo/"
cp /verif/known_findings.json /verif/bounded_checks.json /verif/prop_notes.json "$scratch/verif/" 2>/dev/null
mkdir -p "$scratch/verif/replay" && cp -r /verif/replay/witness /verif/replay/bounded /verif/replay/templates "$scratch/verif/replay/"
(cd "$scratch/repo" && patch -p1 -s < "$patch") || { echo "PATCH-FAILED"; exit 3; }
VERIF_REPO="$scratch/repo" VERIF_DIR="$scratch/verif" /verif/bin/fsv check "$id" "$@"
rc=$?
echo "exit=$rc"
exit $rc
