#!/bin/bash
# usage: all.sh [quick|thorough]  -- runs every claimed check (sequentially; each check is itself parallel), prints one line per check
tier=${1:-quick}
cd /verif
rc_all=0
for id in $(python3 -c "import json;print(' '.join(c['property_id'] for c in json.load(open('MANIFEST.json'))['checks']))"); do
  out=$(bin/fsv check $id --tier $tier 2>&1); rc=$?
  echo "$id exit=$rc $(echo "$out" | tail -1)"
  if [ $rc -ne 0 ]; then rc_all=1; echo "$out" | grep -E "^(VIOLATION|UNDECIDED|undecided)" | cut -c1-300 | head -8; fi
done
exit $rc_all
